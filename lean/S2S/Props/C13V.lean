import S2S.Proofs.TranslateValTop
import S2S.Gen.TGBase
/-!
# C13 at the level of VALUES — translation changes only namespace names, is the identity when nothing maps, round-trips

`S2S/Model/TranslateVal.lean` models `visitNamespace` / `visitSearchAttributes` on whole message trees (`Val`), driven by the
same regenerated `Graph` / `Tables` as the path model; the engines of C12 / C13 / C14 run the real translators on dumped
messages and diff the dumped result with this model (ops `valns` / `valsa`).  All theorems: every graph, every table,
every mapping, every tree (well typed or not).

* `C13_only_names_change`: blanking every namespace-name leaf (plain-string field whose Go name is in `namespaceFieldNames`,
  and `NamespaceInfo.Name`) and forgetting the re-encoded marks makes the object and its translation equal — shape, every
  other scalar, map keys, list lengths, blob structure are identical.  (`C13_only_namespace_fields_assigned` of C13 says
  that on the current tree those leaves are namespace names by the descriptor oracle.)
* `C13_nothing_to_map_is_identity`: if no name offered to the matcher is a key of the mapping, the result is the object
  itself, `matched = false`, and no blob is re-encoded (the result is the input tree, marks included).
* `C13_unmatched_is_unchanged`: more generally `matched = false` implies the object is returned untouched.
* `C13_round_trip`: for a one-to-one mapping not involving the empty name, an object whose visited names avoid the
  unmapped targets is restored by translating back with the inverse — equal up to the re-encoded marks (`unflag`), i.e.
  equal as Go values.  `C13_sa_round_trip`: the same for search-attribute keys.
  The hypothesis on the empty name is needed: see `C13_round_trip_needs_nonempty`.
-/
namespace S2S.TranslateVal
open S2S.Translate S2S.NameMap

variable {α : Type} [DecidableEq α]

theorem C13_only_names_change (g : Graph) (tb : Tables) (X : Ext α) (m : List (α × α)) (blank : α) (v : Val α) :
    eraseV g tb (fun _ => blank) none (translateNs g tb X m v).1 = eraseV g tb (fun _ => blank) none v := by
  unfold translateNs visitNamespace
  split
  · rfl
  · exact (erase_visit g tb X (look m) (fun _ => blank) (fun _ => rfl)).1 v none

theorem C13_unmatched_is_unchanged (g : Graph) (tb : Tables) (X : Ext α) (m : List (α × α)) (v : Val α)
    (h : (translateNs g tb X m v).2 = false) : (translateNs g tb X m v).1 = v := by
  unfold translateNs visitNamespace at h ⊢
  split
  · rfl
  · rename_i hr
    rw [if_neg hr] at h
    exact (unmatched_unchanged g tb X (look m)).1 v none h

theorem C13_nothing_to_map_is_identity (g : Graph) (tb : Tables) (X : Ext α) (m : List (α × α)) (v : Val α)
    (h : ∀ s ∈ visitedNames g tb X v, ∀ p ∈ m, p.1 ≠ s) : translateNs g tb X m v = (v, false) := by
  unfold translateNs visitNamespace
  unfold visitedNames at h
  split
  · rfl
  · rename_i hr
    rw [if_neg hr] at h
    apply visitNs_identity
    intro s hs
    rw [app_look]
    exact look_snd_false m s (h s hs)

theorem C13_round_trip (g : Graph) (tb : Tables) (X : Ext α) (m : List (α × α)) (hbi : newBiMap m = some m)
    (hne : ∀ p ∈ m, p.1 ≠ X.empty ∧ p.2 ≠ X.empty) (hN : tb.ns.contains g.nameField = false) (v : Val α)
    (hv : ∀ s ∈ visitedNames g tb X v, (∃ p ∈ m, p.1 = s) ∨ (∀ p ∈ m, p.2 ≠ s)) :
    unflag (translateNs g tb X (inverse m) (translateNs g tb X m v).1).1 = unflag v :=
  ns_roundtrip_top g tb X m hbi hne hN v hv

theorem C13_sa_round_trip (g : Graph) (tb : Tables) (X : Ext α) (m : List (α × α)) (hbi : newBiMap m = some m) (v : Val α)
    (hv : ∀ k ∈ saKeysV g tb X none v, (∃ p ∈ m, p.1 = k) ∨ (∀ p ∈ m, p.2 ≠ k)) :
    unflag (translateSA g tb X (inverse m) (translateSA g tb X m v).1).1 = unflag v :=
  sa_roundtrip_top g tb X m hbi v hv

/-- **C13, for every configuration the proxy accepts at start-up**: `configAccepts` (no empty name, one-to-one) is
    exactly what `C13_round_trip` needs of the mapping, so for every ACCEPTED mapping and every message whose visited
    names avoid the unmapped targets the round trip restores the message. (Before the `fix:` commit that rejects empty
    names the first conjunct was missing and `Ex.C13_round_trip_needs_nonempty` was reachable.) -/
theorem C13_round_trip_of_accepted_config (g : Graph) (tb : Tables) (X : Ext α) (m : List (α × α))
    (hacc : S2S.NameMap.configAccepts X.empty m = true) (hN : tb.ns.contains g.nameField = false) (v : Val α)
    (hv : ∀ s ∈ visitedNames g tb X v, (∃ p ∈ m, p.1 = s) ∨ (∀ p ∈ m, p.2 ≠ s)) :
    unflag (translateNs g tb X (inverse m) (translateNs g tb X m v).1).1 = unflag v := by
  unfold S2S.NameMap.configAccepts at hacc
  rw [Bool.and_eq_true] at hacc
  obtain ⟨hall, hsome⟩ := hacc
  have hbi : newBiMap m = some m := by
    cases h : newBiMap m with
    | none => rw [h] at hsome; cases hsome
    | some m' => rw [S2S.NameMap.newBiMap_eq m m' h]
  have hne : ∀ p ∈ m, p.1 ≠ X.empty ∧ p.2 ≠ X.empty := by
    intro p hp
    have := List.all_eq_true.mp hall p hp
    simp only [Bool.and_eq_true, Bool.not_eq_true', decide_eq_false_iff_not] at this
    exact this
  exact C13_round_trip g tb X m hbi hne hN v hv

/-- the tables of the current tree satisfy the side condition of `C13_round_trip`: `Name` is not a namespace field name -/
example : S2S.Gen.TG.tables.ns.contains S2S.Gen.TG.graph.nameField = false := by decide

/-! ### non-vacuity: a concrete graph, a message with a blob holding two events, a chain mapping a→b→c
names: 10 = a, 11 = b, 12 = c, 0 = the empty name, 13 = an unmapped name -/
namespace Ex
/-- Go field names: 1 Namespace, 2 HistoryBatches, 3 Identity, 4 EventType, 5 Links, 6 Attributes, 7 ParentWorkflowNamespace,
    8 Variant, 9 WorkflowEvent, 14 Name, 15 Events, 16 IndexedFields, 17 SearchAttributes -/
def g : Graph :=
  { types := [
      ⟨0, [⟨1, true, true, false, false, []⟩, ⟨2, false, false, true, false, []⟩, ⟨3, false, true, false, false, []⟩]⟩,  -- a response
      ⟨1, [⟨4, false, false, false, false, []⟩, ⟨5, false, false, false, false, [3]⟩, ⟨6, false, false, false, false, [2]⟩]⟩,  -- HistoryEvent
      ⟨2, [⟨7, true, true, false, false, []⟩, ⟨17, false, false, false, true, [6]⟩]⟩,   -- started attributes
      ⟨3, [⟨8, false, false, false, false, [4]⟩]⟩,                                       -- Link
      ⟨4, [⟨9, false, false, false, false, [5]⟩]⟩,                                       -- Link_WorkflowEvent_ (wrapper)
      ⟨5, [⟨1, true, true, false, false, []⟩]⟩,                                          -- Link_WorkflowEvent
      ⟨6, [⟨16, false, false, false, false, []⟩]⟩,                                       -- SearchAttributes
      ⟨7, [⟨3, false, true, false, false, []⟩]⟩]                                         -- signaled attributes (skippable)
    eventType := 1, historyType := 20, namespaceInfo := 21, nameField := 14, attributesField := 6, linksField := 5 }
def tb : Tables := { ns := [1, 7], blob := [2], sa := [17], skipAttr := [7], reviewedNonEventBlob := [] }
def X : Ext Nat :=
  { empty := 0, evAttr := fun t => some t, eventTypeField := 4, variantField := 8, workflowEventField := 9, namespaceField := 1,
    eventsField := 15, indexedFieldsField := 16, lwerType := 30 }
def chain : List (Nat × Nat) := [(10, 11), (11, 12)]
/-- event of attributes type `ty` (its EventType token is the attributes type) -/
def ev (ty : Nat) (attrs : Val Nat) : Val Nat := .msg 1 [.tok ty, .nil .slice, attrs]
def started (ns : Nat) (sa : Val Nat) : Val Nat := ev 2 (.msg 2 [.str ns, sa])
def signaled (who : Nat) : Val Nat := ev 7 (.msg 7 [.str who])
def msg1 : Val Nat :=
  .msg 0 [.str 10, .list [.blobEv false [started 10 (.nil .ptr), started 11 (.nil .ptr)], .blobEv false [signaled 10, signaled 11]], .str 10]

/-- the chain maps every field once (a→b, b→c, simultaneously); the identity field and the skippable batch are untouched;
    only the batch that matched is re-encoded -/
example : translateNs g tb X chain msg1 =
    (.msg 0 [.str 11, .list [.blobEv true [started 11 (.nil .ptr), started 12 (.nil .ptr)], .blobEv false [signaled 10, signaled 11]], .str 10], true) := by
  rfl
/-- blanking the namespace leaves identifies the two -/
example : eraseV g tb (fun _ => 0) none (translateNs g tb X chain msg1).1 = eraseV g tb (fun _ => 0) none msg1 := by rfl
/-- the names offered to the matcher (the skippable batch offers none) -/
example : visitedNames g tb X msg1 = [10, 10, 11] := by rfl
/-- nothing to map: identity -/
example : translateNs g tb X [(13, 14)] msg1 = (msg1, false) := by rfl
/-- a swap round-trips -/
example : unflag (translateNs g tb X (inverse [(10, 11), (11, 10)]) (translateNs g tb X [(10, 11), (11, 10)] msg1).1).1 = unflag msg1 := by rfl
/-- the chain does not: `b` is translated to `c`, and `c`... comes back as `b` only because `c` is not in the message; a message
    holding the unmapped target `c` (12) is NOT restored — the hypothesis of `C13_round_trip` excludes exactly this -/
example : unflag (translateNs g tb X (inverse chain) (translateNs g tb X chain (.msg 0 [.str 12, .nil .slice, .str 0])).1).1
    ≠ unflag (.msg 0 [.str 12, .nil .slice, .str 0]) := by
  intro h; cases h

/-- `C13_round_trip` needs the mapping to avoid the empty name: a skippable event whose link names namespace `a`, mapping
    `a ↦ ""`: translated (the non-empty link name stops the shortcut), but on the way back the link name is empty, the
    shortcut skips the event and the name is not restored -/
def linked (ns : Nat) : Val Nat :=
  .msg 1 [.tok 7, .list [.msg 3 [.msg 4 [.msg 5 [.str ns]]]], .msg 7 [.str 10]]
example : (translateNs g tb X [(10, 0)] (.msg 0 [.str 13, .list [.blobEv false [linked 10]], .str 0])).1
    = .msg 0 [.str 13, .list [.blobEv true [linked 0]], .str 0] := by rfl
theorem C13_round_trip_needs_nonempty :
    unflag (translateNs g tb X (inverse [(10, 0)]) (translateNs g tb X [(10, 0)] (.msg 0 [.str 13, .list [.blobEv false [linked 10]], .str 0])).1).1
    ≠ unflag (.msg 0 [.str 13, .list [.blobEv false [linked 10]], .str 0]) := by
  intro h; cases h

/-- search-attribute keys: chain + swap round-trips on keys avoiding the unmapped target -/
def saMsg : Val Nat :=
  .msg 0 [.str 10, .list [.blobEv false [started 10 (.msg 6 [.map [.kv 10 (.payload 1), .kv 11 (.payload 2), .kv 13 (.payload 3)]])]], .str 10]
example : translateSA g tb X chain saMsg =
    (.msg 0 [.str 10, .list [.blobEv true [started 10 (.msg 6 [.map [.kv 11 (.payload 1), .kv 12 (.payload 2), .kv 13 (.payload 3)]])]], .str 10], true) := by rfl
example : unflag (translateSA g tb X (inverse chain) (translateSA g tb X chain saMsg).1).1 = unflag saMsg := by rfl
end Ex

end S2S.TranslateVal
