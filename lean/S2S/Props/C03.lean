import S2S.Proofs.RoutingC03
/-!
# C03 — acknowledgements to a source are monotone, bounded and eventually complete

Safety (`MonoBoundedAlong`): at every step of every fault-free run, an acknowledgement sent on a
source stream is `≥` every acknowledgement sent before on that stream and `≤` the last exclusive
high watermark received from that source.

Liveness, stated without temporal logic as "two fair rounds suffice" (`fairRound`, in
`Spec/Routing.lean`: the source re-sends its final watermark `H`, every queue drains, every target
acknowledges everything it has received, every queue drains): from **every** reachable fault-free
state — whatever is still queued, however full the slow targets' queues are, whichever targets
never got a task from this source — after two rounds the last acknowledgement the source has
received equals `H`.  What this does not cover: real-time ticker behaviour and fair schedules
that do not contain two such rounds.
-/
namespace S2S.Routing

theorem C03_acks_monotone_bounded (ns nt : Nat) (acts : List Act)
    (henv : EnvOK Cfg.cur (State.init ns nt) acts) (hnf : NoFaults acts) :
    MonoBoundedAlong Cfg.cur (State.init ns nt) acts :=
  mono_bounded_cur ns nt acts henv hnf

theorem C03_eventually_complete (ns nt : Nat) (acts : List Act)
    (henv : EnvOK Cfg.cur (State.init ns nt) acts) (hnf : NoFaults acts)
    (s : SId) (H : Int) (hnt : 0 < nt)
    (hact : ((run Cfg.cur (State.init ns nt) acts).src s).active = true)
    (hst : ∀ t, t < nt → ((run Cfg.cur (State.init ns nt) acts).tgt t).started = true)
    (hH : RecvOK nt ((run Cfg.cur (State.init ns nt) acts).src s) [] H) :
    ∃ fuel, ((fairRound Cfg.cur fuel s H (fairRound Cfg.cur fuel s H (run Cfg.cur (State.init ns nt) acts))).src s).acksSent.getLast? = some H :=
  eventually_complete_cur ns nt acts henv hnf s H hnt hact hst hH

/-- non-vacuity / illustration: a slow target with a message still in hand, a silent target that never
    got a task, a batch still pending — two rounds bring the source's ack to its final watermark 30. -/
example :
    let acts : List Act := [.openTgt 0, .startTgt 0, .replayDone 0, .openTgt 1, .startTgt 1, .replayDone 1, .openSrc 0,
      .recv 0 [(5, 0), (7, 0)] 9, .deliver 0 0, .take 0, .recv 0 [(9, 0)] 12]
    let σ := run Cfg.cur (State.init 1 2) acts
    EnvOK Cfg.cur (State.init 1 2) acts ∧ NoFaults acts ∧
    ((fairRound Cfg.cur 1000 0 30 (fairRound Cfg.cur 1000 0 30 σ)).src 0).acksSent.getLast? = some 30 := by
  decide

end S2S.Routing
