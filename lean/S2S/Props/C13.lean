import S2S.Proofs.NameMap
import S2S.Proofs.TranslateExact
import S2S.Gen.TGExact
/-!
# C13 — translation touches nothing else, is invertible and points the right way

* only namespace-name leaves are ever assigned: `C13_only_namespace_fields_assigned` — for the regenerated
  type graph, every field the visitor can assign to (plain string, Go name in `namespaceFieldNames`) is a
  namespace-name field by the descriptor oracle (finite obligation over regenerated facts), and matching is
  exact (`translateName` is a lookup: `C13_unmapped_untouched`); the harness compares whole messages with an
  independent reference translation (every other field, blob bytes, sizes);
* simultaneity: a name is mapped once (`C13_single_application`: chains a→b, b→c map a to b, not c);
* invertibility: `C13_roundtrip` for every one-to-one mapping and every name that is not an unmapped image;
* `C13_bimap_rejects_exactly_non_injective`: `NewStaticBiMap` succeeds iff keys and values are duplicate-free;
* direction: `C13_direction_roundtrip` — requests through a server are mapped by one map and the responses by
  its inverse, opposite on the two servers, so out-and-back restores the name.
-/
namespace S2S.NameMap

variable {α : Type} [DecidableEq α]

theorem C13_unmapped_untouched (m : List (α × α)) (s : α) (h : ∀ p ∈ m, p.1 ≠ s) : translateName m s = s :=
  translateName_unmapped m s h

theorem C13_single_application (m : List (α × α)) (a b : α) (hm : (a, b) ∈ m) (hk : (m.map (·.1)).Nodup) :
    translateName m a = b :=
  translateName_mapped m a b hm hk

theorem C13_bimap_rejects_exactly_non_injective (pairs : List (α × α)) :
    (newBiMap pairs).isSome = true ↔ (pairs.map (·.1)).Nodup ∧ (pairs.map (·.2)).Nodup :=
  newBiMap_isSome_iff pairs

theorem C13_bimap_is_the_list (pairs m : List (α × α)) (h : newBiMap pairs = some m) : m = pairs :=
  newBiMap_eq pairs m h

theorem C13_roundtrip (m : List (α × α)) (hk : (m.map (·.1)).Nodup) (hv : (m.map (·.2)).Nodup) (s : α)
    (hs : (∃ p ∈ m, p.1 = s) ∨ (∀ p ∈ m, p.2 ≠ s)) :
    translateName (inverse m) (translateName m s) = s :=
  roundtrip m hk hv s hs

theorem C13_direction_roundtrip (l2r : List (α × α)) (hk : (l2r.map (·.1)).Nodup) (hv : (l2r.map (·.2)).Nodup) (s : α)
    (hs : (∃ p ∈ l2r, p.1 = s) ∨ (∀ p ∈ l2r, p.2 ≠ s)) :
    -- a local name leaves through the outbound server's request map and comes back through its response map
    translateName (serverMaps false l2r).2 (translateName (serverMaps false l2r).1 s) = s ∧
    -- the two servers use opposite maps
    (serverMaps true l2r).1 = (serverMaps false l2r).2 ∧ (serverMaps true l2r).2 = (serverMaps false l2r).1 := by
  refine ⟨?_, rfl, rfl⟩
  simpa [serverMaps] using roundtrip l2r hk hv s hs

/-- "exactly once" matters: with a mapping whose targets are sources too (a chain `a ↦ b ↦ c`, which the start-up validation
    accepts), translating a name twice is NOT translating it once — a second pass over an already translated message (a
    retry that re-enters the translation, a field reached by two walks) sends `a` to `c`. (Seeds C12f, C13f, C14g.) -/
theorem C13_applied_twice_is_not_once (m : List (α × α)) (a b c : α) (hab : (a, b) ∈ m) (hbc : (b, c) ∈ m)
    (hk : (m.map (·.1)).Nodup) (hne : c ≠ b) :
    translateName m (translateName m a) = c ∧ translateName m (translateName m a) ≠ translateName m a := by
  have h1 : translateName m a = b := translateName_mapped m a b hab hk
  have h2 : translateName m b = c := translateName_mapped m b c hbc hk
  rw [h1, h2]
  exact ⟨rfl, hne⟩

/-- … and it is harmless exactly when no target is a source: then a second pass finds nothing to map -/
theorem C13_applied_twice_is_once_when_disjoint (m : List (α × α)) (hk : (m.map (·.1)).Nodup)
    (hdis : ∀ p ∈ m, ∀ q ∈ m, q.1 ≠ p.2) (s : α) :
    translateName m (translateName m s) = translateName m s := by
  by_cases hs : ∃ p ∈ m, p.1 = s
  · obtain ⟨p, hp, rfl⟩ := hs
    have h1 : translateName m p.1 = p.2 := translateName_mapped m p.1 p.2 (by simpa using hp) hk
    rw [h1]
    exact translateName_unmapped m p.2 (fun q hq => hdis p hp q hq)
  · have h1 : translateName m s = s := translateName_unmapped m s (fun p hp h => hs ⟨p, hp, h⟩)
    rw [h1, h1]

example : configAccepts "" [("a", "b"), ("b", "c")] = true ∧
    translateName [("a", "b"), ("b", "c")] (translateName [("a", "b"), ("b", "c")] "a") = "c" := by decide

end S2S.NameMap

namespace S2S.Translate

/-- only namespace-name fields can be assigned by the visitor, on the regenerated type graph of the current tree -/
theorem C13_only_namespace_fields_assigned (t : TypeD) (ht : t ∈ S2S.Gen.TG.graph.types) (f : FieldD) (hf : f ∈ t.fields)
    (hs : f.goString = true) (hn : S2S.Gen.TG.tables.ns.contains f.go = true) : f.oracleNs = true :=
  exact_of_chunks S2S.Gen.TG.graph S2S.Gen.TG.tables S2S.Gen.TG.chunks rfl S2S.Gen.TG.chunks_exact t ht f hf hs hn

end S2S.Translate
