import S2S.Model.Acl
import S2S.Proofs.Acl
import S2S.Props.C12
/-!
# C16 — requests naming a namespace outside the allow-list are refused

The access-control interceptor runs the SAME reflective visitor as translation (`visitNamespace`) with a
matcher that flags every name outside the allow-list, after the translation interceptor.

* `C16_forbidden_namespace_denied`: for every policy, method of either service and request, if any name the
  visitor sees is not allowed the call is refused and nothing behind the interceptor runs (also for the empty
  name, which the code refuses under a non-empty list — stricter than required, modelled as is);
* `C16_every_namespace_field_is_seen`: on the current tree the visitor sees the name at the end of every structural
  path to a namespace field, of any depth, including inside history blobs (this is C12's coverage theorem:
  "translated" and "seen by the access matcher" are the same traversal);
* `C16_unreadable_request_denied`: a request whose history blob can neither be decoded nor repaired (so that the
  visitor fails and the names in it cannot be checked) is refused, never passed on unchecked;
* `C16_list_namespaces_filtered`: the ListNamespaces response keeps exactly the allowed names, in order;
* the decision function has no translation-bypass input: the header cannot influence it (it only switches the
  translation interceptor off, so the check then runs on the untranslated names — modelled exactly).
-/
namespace S2S.Acl

theorem C16_forbidden_namespace_denied (p : Policy) (svc : Service) (name : String) (ns : List String) (n : String)
    (hsvc : svc = .workflow ∨ svc = .admin) (hn : n ∈ ns) (hf : isAllowed p.namespaces n = false) :
    aclUnaryOn p svc name ns = .denied :=
  forbidden_namespace_denied p svc name ns n hsvc hn hf

theorem C16_allowed_namespaces_pass (p : Policy) (name : String) (ns : List String)
    (hall : ∀ n ∈ ns, isAllowed p.namespaces n = true) (hnot : denyList.contains name = false) :
    aclUnaryOn p .workflow name ns = .forward :=
  allowed_namespaces_pass p name ns hall hnot

theorem C16_list_namespaces_filtered (allowed : List String) (names : List String) :
    filterNamespaces (some allowed) names = names.filter (isAllowed allowed) ∧
    (∀ n ∈ filterNamespaces (some allowed) names, isAllowed allowed n = true) ∧
    (filterNamespaces (some allowed) names).Sublist names :=
  list_namespaces_filtered allowed names

/-- a request the visitor cannot read (a history blob that is neither decodable nor repairable, so its names
    cannot be checked) is refused too, for every policy and method of either service -/
theorem C16_unreadable_request_denied (p : Policy) (svc : Service) (name : String)
    (hsvc : svc = .workflow ∨ svc = .admin) : aclUnaryOnV p svc name none = .denied := by
  unfold aclUnaryOnV
  rcases hsvc with h | h <;> subst h <;> simp <;> split <;> simp_all

/-- and when the visitor succeeds the decision is exactly the one of `aclUnaryOn` on the names it saw -/
theorem C16_readable_request_decided_by_names (p : Policy) (svc : Service) (name : String) (ns : List String) :
    aclUnaryOnV p svc name (some ns) = aclUnaryOn p svc name ns := rfl

end S2S.Acl

namespace S2S.Translate

/-- the access matcher is applied at every namespace-name leaf the visitor reaches: on the current tree, all of them -/
theorem C16_every_namespace_field_is_seen (root : Nat) (p : Path)
    (hw : WellFormed S2S.Gen.TG.graph S2S.Gen.TG.tables root p) :
    translates S2S.Gen.TG.graph S2S.Gen.TG.tables p = true :=
  C12_every_path_translated root p hw

end S2S.Translate
