import S2S.Proofs.Utf8Decomp
import S2S.Proofs.Utf8Chain
import S2S.Proofs.Utf8Std
/-!
# C17 — UTF-8 repair is invisible on valid data and faithful on invalid data

Over `S2S/Model/Utf8.lean`:
 (i)   `validUtf8` / `toValidUtf8` = Go's `utf8.ValidString` / `strings.ToValidUTF8(s, "�")`
       (compared byte for byte with the real functions by the harness, exhaustively up to length 3);
 (ii)  `repairFailureChain` = `repairInvalidUTF8InFailure` (depth bound 10);
 (iii) `codecUnmarshal` = decision logic of `RepairUTF8Codec.Unmarshal` + `convertAndRepairInvalidUTF8`,
       `blobTranslate` = `translateOneDataBlob` + `tryRepairInvalidUTF8InBlob`, as functions of stage outcomes.
All theorems quantify over every byte string / chain / stage outcome.  The protobuf codecs and the
legacy round trip are parameters (modelled, not verified): `C17_codec_faithful_partial` states the
payload-level claim under the explicit hypothesis the harness validates on the real code.
-/
namespace S2S.Utf8

/-! ## (i) the two UTF-8 functions -/

/-- invisible on valid data: valid input is returned byte for byte -/
theorem C17_valid_unchanged (s : Bytes) (h : validUtf8 s = true) : toValidUtf8 s = s :=
  toValidUtf8_of_valid h

/-- the result is always valid UTF-8 -/
theorem C17_output_valid (s : Bytes) : validUtf8 (toValidUtf8 s) = true :=
  validUtf8_toValidUtf8 s

theorem C17_idempotent (s : Bytes) : toValidUtf8 (toValidUtf8 s) = toValidUtf8 s :=
  toValidUtf8_of_valid (validUtf8_toValidUtf8 s)

/-- valid bytes in front of anything are kept verbatim and in order (weaker form of the decomposition) -/
theorem C17_valid_prefix_kept (a b : Bytes) (h : validUtf8 a = true) :
    toValidUtf8 (a ++ b) = a ++ toValidUtf8 b :=
  toValidUtf8_valid_append a b h

/-- the model of Go's table-driven decoder is UTF-8: it accepts exactly the concatenations of
    standard (RFC 3629, shortest-form) encodings of Unicode scalar values — no overlong forms, no
    surrogates, nothing above U+10FFFF, no truncated sequences -/
theorem C17_valid_iff_standard_utf8 (s : Bytes) :
    validUtf8 s = true ↔ ∃ cs : List Nat, (∀ c ∈ cs, isScalar c = true) ∧ s = (cs.map encodeRune).flatten :=
  validUtf8_iff_scalars s

/-- hence the repaired string is always a sequence of encoded scalar values -/
theorem C17_output_is_standard_utf8 (s : Bytes) :
    ∃ cs : List Nat, (∀ c ∈ cs, isScalar c = true) ∧ toValidUtf8 s = (cs.map encodeRune).flatten :=
  (validUtf8_iff_scalars _).mp (validUtf8_toValidUtf8 s)

/-- one maximal run of ill-formed bytes becomes exactly one U+FFFD -/
theorem C17_bad_run_one_replacement (b rest : Bytes) (hne : b ≠ [])
    (hbad : ∀ k, k < b.length → runeLen (b.drop k ++ rest) = 0) (hmax : rest = [] ∨ 0 < runeLen rest) :
    toValidUtf8 (b ++ rest) = repl ++ toValidUtf8 rest := by
  rw [toValidUtf8_eq_tv, tv_bad_run b rest false hne hbad, tv_flag hmax true]; rfl

/-- **faithful on invalid data** (strongest form): whenever `segs` cuts `s` into maximal valid
    segments and maximal runs of ill-formed bytes (`Decomp`), the output is the concatenation of the
    valid segments, in order and verbatim, with exactly one U+FFFD per invalid run. -/
theorem C17_decomposition (s : Bytes) (segs : List Seg) (h : Decomp s segs) :
    flatten segs = s ∧ toValidUtf8 s = render segs :=
  ⟨h.flatten_eq, tv_decomp h⟩

/-- every byte string has exactly one such decomposition, so `C17_decomposition` determines the output -/
theorem C17_decomposition_exists_unique (s : Bytes) :
    ∃ segs, Decomp s segs ∧ ∀ segs', Decomp s segs' → segs' = segs := by
  obtain ⟨segs, h⟩ := exists_decomp s
  exact ⟨segs, h, fun _ h' => h'.unique h⟩

/-- the segments of a decomposition alternate (maximality): after a valid segment comes an
    ill-formed head or the end, after an invalid run a well-formed rune or the end -/
theorem C17_decomposition_alternates (s : Bytes) (segs : List Seg) (h : Decomp s segs) :
    (∀ g, segs.head? = some (.good g) → 0 < runeLen s) ∧
    (∀ b, segs.head? = some (.bad b) → s ≠ [] ∧ runeLen s = 0) :=
  h.alternate

/-! ## (ii) failure chains -/

/-- chains within the supported depth: no error; every message ends valid; messages that were valid
    are untouched; nothing is added, dropped or reordered; `changed` says whether anything was invalid -/
theorem C17_chain_within_bound (chain : List Bytes) (h : chain.length ≤ maxFailureDepth) :
    ∃ changed out, repairFailureChain chain = .ok (changed, out) ∧
      out = chain.map toValidUtf8 ∧
      out.length = chain.length ∧
      (∀ m ∈ out, validUtf8 m = true) ∧
      (∀ i (hi : i < chain.length) (ho : i < out.length), validUtf8 chain[i] = true → out[i] = chain[i]) ∧
      (changed = true ↔ ∃ m ∈ chain, validUtf8 m = false) := by
  refine ⟨_, _, repair_ok_of_le chain _ h, rfl, by simp, ?_, ?_, ?_⟩
  · intro m hm
    obtain ⟨x, _, rfl⟩ := List.mem_map.mp hm
    exact validUtf8_toValidUtf8 x
  · intro i hi ho hv
    simp [toValidUtf8_of_valid hv]
  · simp

/-- chains beyond the supported depth are reported as an error -/
theorem C17_chain_beyond_bound (chain : List Bytes) (h : maxFailureDepth < chain.length) :
    repairFailureChain chain = .error .maxDepth :=
  repair_err_of_gt chain _ h

/-- what the call leaves behind in every case (Go mutates in place, also when it returns the error):
    the first ten messages sanitised, the rest untouched -/
theorem C17_chain_state (chain : List Bytes) :
    (repairFailureChainFull chain).chain = (chain.take maxFailureDepth).map toValidUtf8 ++ chain.drop maxFailureDepth ∧
    ((repairFailureChainFull chain).err = none ↔ chain.length ≤ maxFailureDepth) := by
  rw [repairFull_eq]
  refine ⟨rfl, ?_⟩
  by_cases h : maxFailureDepth < chain.length <;> simp [h] <;> omega

/-! ## (iii) the codec -/

/-- **transparency**: when the standard codec accepts the message the result is the delegate's and
    the repair path is never entered -/
theorem C17_codec_transparent (s : Stages) (h : s.delegate = .ok) :
    codecUnmarshal s = (.okDelegate, false) := by
  simp [codecUnmarshal, h]

/-- the repair path is entered exactly on an invalid-UTF-8 error of the delegate -/
theorem C17_codec_repair_entered_iff (s : Stages) :
    (codecUnmarshal s).2 = true ↔ s.delegate = .invalidUtf8 := by
  unfold codecUnmarshal
  cases s.delegate <;> simp
  split <;> simp

/-- **no corruption**: the codec returns success only via delegate-ok or a fully successful repair
    (every stage succeeded and something was repaired) -/
theorem C17_codec_no_corruption (s : Stages) (h : (codecUnmarshal s).1.isOk = true) :
    (s.delegate = .ok ∧ (codecUnmarshal s).1 = .okDelegate) ∨
    (s.delegate = .invalidUtf8 ∧ s.marshaler = true ∧ s.convertible = true ∧ s.legacy = true ∧
      s.repair = .changed ∧ s.remarshal = true ∧ s.reunmarshal = true ∧ (codecUnmarshal s).1 = .okRepaired) := by
  obtain ⟨d, m, c, l, r, rm, ru⟩ := s
  cases d <;> cases m <;> cases c <;> cases l <;> cases r <;> cases rm <;> cases ru <;>
    simp [codecUnmarshal, convertAndRepair, CodecResult.isOk] at h ⊢

/-- otherwise the delegate's own error is what the caller gets (never a silent success) -/
theorem C17_codec_error_is_delegates (s : Stages) (h : (codecUnmarshal s).1.isOk = false) :
    (s.delegate = .otherErr ∧ (codecUnmarshal s).1 = .errOther) ∨
    (s.delegate = .invalidUtf8 ∧ ∃ st, st ≠ .repaired ∧ convertAndRepair s = st ∧ (codecUnmarshal s).1 = .errInvalidUtf8 st) := by
  obtain ⟨d, m, c, l, r, rm, ru⟩ := s
  cases d <;> cases m <;> cases c <;> cases l <;> cases r <;> cases rm <;> cases ru <;>
    simp [codecUnmarshal, convertAndRepair, CodecResult.isOk] at h ⊢

/-! ### payload level, codecs as parameters -/

/-- The full payload-level claim needs the protobuf wire format: "the legacy re-encoding of the
    repaired message is the input with exactly the failure messages sanitised".  It is kept visible: -/
def C17_codec_faithful_full {W M L : Type} (env : CodecEnv W M L) (sanitise : W → W) : Prop :=
  ∀ w m, codecRun env w = some m → env.std w = some m ∨ env.std (sanitise w) = some m

/-- proved part: whatever the codec returns is the *standard* decode of the input itself or of its
    sanitised copy — nothing else can come out; and under the round-trip hypothesis (validated by the
    harness against the real gogo/protobuf codecs on every run) the full claim follows. -/
theorem C17_codec_faithful_partial {W M L : Type} (env : CodecEnv W M L) (w : W) (m : M)
    (h : codecRun env w = some m) :
    env.std w = some m ∨ ∃ w', SanitisedCopy env w w' ∧ env.std w = none ∧ env.stdUtf8 w = true ∧ env.std w' = some m := by
  unfold codecRun at h
  split at h
  · rename_i m' hm; left; rw [hm]; exact h
  · rename_i hstd
    right
    split at h; · cases h
    rename_i hu
    split at h; · cases h
    split at h; · cases h
    rename_i dec hdec
    split at h; · cases h
    rename_i l hl
    split at h
    · rename_i l' hr
      split at h; · cases h
      rename_i w' hw'
      exact ⟨w', ⟨dec, l, l', hdec, hl, hr, hw'⟩, hstd, by simpa using hu, h⟩
    · cases h

theorem C17_codec_faithful_of_roundtrip {W M L : Type} (env : CodecEnv W M L) (sanitise : W → W)
    (hrt : ∀ w w', SanitisedCopy env w w' → w' = sanitise w) : C17_codec_faithful_full env sanitise := by
  intro w m h
  rcases C17_codec_faithful_partial env w m h with h | ⟨w', hs, _, _, hm⟩
  · exact Or.inl h
  · right; rw [← hrt w w' hs]; exact hm

/-! ## (iii') history blobs -/

/-- a blob the standard serializer accepts never enters the repair path -/
theorem C17_blob_transparent (s : BlobStages) (d : BlobDefects) (h : s.deserialize = .ok) :
    (blobTranslate s d).2.2.2 = false ∧ (blobTranslate s d).2.2.1 = false := by
  unfold blobTranslate
  cases s.empty <;> simp [h]
  cases s.visitor <;> simp
  split <;> simp

/-- a blob is reported as repaired (`changed`) only after every stage of the repair succeeded -/
theorem C17_blob_changed_only_by_full_repair (s : BlobStages) (d : BlobDefects) (h : (blobTranslate s d).2.2.1 = true)
    (hne : (blobTranslate s d).1 ≠ .error) :
    s.deserialize = .invalidUtf8 ∧ s.legacy = true ∧ s.repair = .changed ∧ s.reserialize = true ∧
    s.redeserialize = true ∧ s.serialize = true ∧ (blobTranslate s d).1 = .rewritten := by
  obtain ⟨e, dz, l, r, rs, rd, v, se⟩ := s
  obtain ⟨df⟩ := d
  cases e <;> cases dz <;> cases l <;> cases r <;> cases rs <;> cases rd <;> cases se <;> cases df <;>
    rcases v with _ | _ | _ <;> simp [blobTranslate, tryRepairBlob] at h hne ⊢

/-- The statement's last clause for blobs, at full strength: a (non-empty) blob the standard
    serializer rejects as invalid UTF-8 is either repaired or an error is returned — never passed on
    as it is. -/
def C17_blob_unrepairable_reported (d : BlobDefects) : Prop :=
  ∀ s : BlobStages, s.empty = false → s.deserialize = .invalidUtf8 →
    (blobTranslate s d).1 = .error ∨ (blobTranslate s d).2.2.1 = true

/-- FALSE of the current code (finding C17-blob-unrepairable-passed-silently, reproduced on the real
    code by the harness on every run): invalid UTF-8 outside failure messages, legacy reading fine,
    nothing to repair ⇒ the blob is returned unchanged, no error, and the visitor ran on no events. -/
theorem C17_blob_unrepairable_reported_refuted : ¬ C17_blob_unrepairable_reported .asIs := by
  intro h
  have := h ⟨false, .invalidUtf8, true, .unchanged, true, true, some false, true⟩ rfl rfl
  revert this
  decide

/-- proved part for the code as it is: whenever the legacy reading finds something to repair, or
    fails, or a chain is too deep, the clause holds -/
theorem C17_blob_unrepairable_reported_partial (s : BlobStages) (he : s.empty = false)
    (hd : s.deserialize = .invalidUtf8) (hr : s.legacy = false ∨ s.repair ≠ .unchanged) :
    (blobTranslate s .asIs).1 = .error ∨ (blobTranslate s .asIs).2.2.1 = true := by
  obtain ⟨e, dz, l, r, rs, rd, v, se⟩ := s
  simp only at he hd hr
  subst he hd
  cases l <;> cases r <;> cases rs <;> cases rd <;> cases se <;>
    rcases v with _ | _ | _ <;> simp [blobTranslate, tryRepairBlob] at hr ⊢

/-- with the deviation repaired (unrepairable ⇒ error, as the codec does) the clause holds in full -/
theorem C17_blob_unrepairable_reported_fixed : C17_blob_unrepairable_reported .fixed := by
  intro s he hd
  obtain ⟨e, dz, l, r, rs, rd, v, se⟩ := s
  simp only at he hd
  subst he hd
  cases l <;> cases r <;> cases rs <;> cases rd <;> cases se <;>
    rcases v with _ | _ | _ <;> simp [blobTranslate, tryRepairBlob, BlobDefects.fixed]

/-! ## non-vacuity -/

-- Go's table: overlong forms, surrogates, > U+10FFFF, truncated sequences and stray bytes are invalid
example : validUtf8 [0xC0, 0x80] = false := by decide
example : validUtf8 [0xE0, 0x80, 0x80] = false := by decide
example : validUtf8 [0xED, 0xA0, 0x80] = false := by decide
example : validUtf8 [0xF4, 0x90, 0x80, 0x80] = false := by decide
example : validUtf8 [0xE2, 0x82] = false := by decide
example : validUtf8 [0xFF] = false := by decide
example : validUtf8 [0x61, 0xE2, 0x82, 0xAC, 0xF0, 0x9F, 0x98, 0x80, 0xEF, 0xBF, 0xBD] = true := by decide
-- U+FFFD is the scalar 0xFFFD; its standard encoding is the replacement string
example : isScalar 0xFFFD = true ∧ encodeRune 0xFFFD = repl := by decide
example : encodeRune 0x20AC = [0xE2, 0x82, 0xAC] ∧ encodeRune 0x1F600 = [0xF0, 0x9F, 0x98, 0x80] := by decide
-- consecutive ill-formed bytes collapse into ONE replacement; a truncated rune counts byte by byte
example : toValidUtf8 [0x61, 0xFF, 0xFE, 0x62] = [0x61, 0xEF, 0xBF, 0xBD, 0x62] := by decide
example : toValidUtf8 [0xE2, 0x82, 0x41, 0xC0, 0x80, 0xE2, 0x82, 0xAC] = [0xEF, 0xBF, 0xBD, 0x41, 0xEF, 0xBF, 0xBD, 0xE2, 0x82, 0xAC] := by decide
-- a decomposition with both kinds of segments exists for that input
example : Decomp [0x61, 0xFF, 0xFE, 0x62] [.good [0x61], .bad [0xFF, 0xFE], .good [0x62]] :=
  .good [0x61] _ _ (by decide) (by decide) (by decide)
    (.bad [0xFF, 0xFE] _ _ (by decide) (by intro k hk; match k, hk with | 0, _ => decide | 1, _ => decide) (by decide)
      (.good [0x62] [] _ (by decide) (by decide) (by decide) .nil))
-- chains: depth 10 is repaired, depth 11 is an error but its first ten messages are still repaired
example : repairFailureChain (List.replicate 10 [0xFF]) = .ok (true, List.replicate 10 repl) := by rfl
example : repairFailureChain (List.replicate 11 [0xFF]) = .error .maxDepth := by rfl
example : (repairFailureChainFull (List.replicate 11 [0xFF])).chain = List.replicate 10 repl ++ [[0xFF]] := by decide
example : repairFailureChain [[0x61], [0xFF], [0x62]] = .ok (true, [[0x61], repl, [0x62]]) := by rfl
-- codec: the successful repair and a refused one are both reachable
example : codecUnmarshal ⟨.invalidUtf8, true, true, true, .changed, true, true⟩ = (.okRepaired, true) := by decide
example : codecUnmarshal ⟨.invalidUtf8, true, true, true, .unchanged, true, true⟩ = (.errInvalidUtf8 .nothingRepaired, true) := by decide
example : codecUnmarshal ⟨.invalidUtf8, true, false, true, .changed, true, true⟩ = (.errInvalidUtf8 .notConvertible, true) := by decide

end S2S.Utf8
