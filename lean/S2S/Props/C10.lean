import S2S.Proofs.MuxPoolLimit
import S2S.Proofs.MuxPoolShutdown
/-!
# C10 — the mux session pool stays within its limit, heals itself and shuts down clean

Model: `S2S/Model/MuxPool.lean` — `muxProvider.Start`'s loop branch by branch, `AddConnection`,
`waitAndCleanup`/`unregisterMux`/`AllowMoreConns`, `onClose`, and the environment (connection
attempts failing or succeeding, peers closing, callers closing sessions, cancellation).  The
establisher and the receiver run the same loop; the role is a label.  Every theorem is for every
pool size `n`, both roles, **every list of actions** (every interleaving, every fault sequence);
`d : Defects` selects the current tree (`Defects.asIs`) or the repaired one (`Defects.fixed`) and the
safety and progress theorems hold for both.

* safety — `C10_conservation`, `C10_within_limit`
* slots come back — `C10_failure_returns_slot`, `C10_death_returns_slot`
* progress — `C10_progress_bounded`, `C10_progress_full`, `C10_progress_exists`
* shutdown — the full statement `C10_shutdown_full` is **false of the current tree**
  (`C10_refuted_late_add`, `C10_refuted_sessfn_error`, `C10_refuted_exit_during_ping`, `C10_refuted`);
  proved: `C10_shutdown_partial` (no step of the run abandons an open resource), `C10_shutdown_fixed`
  (the repaired tree), `C10_shutdown_terminates` (after `Cancel` every execution is finite).
-/
namespace S2S.MuxPool

/-- **conservation**: free permits + the provider's in-flight attempt (0/1) + sessions holding a slot
    (registered, or cleaned up with `AllowMoreConns` still to come) + permits taken to the grave by a
    goroutine that returned after `Cancel` = the configured count, in every reachable state. -/
theorem C10_conservation (d : Defects) (n : Nat) (r : Role) (acts : List Act) :
    let σ := run d (St.init n r) acts
    σ.permits + σ.phase.inflight + σ.heldCount + σ.lostPermits = n := by
  have h := (inv_reach d n r acts).cons
  rw [run_cap] at h
  exact h

/-- hence never more than `n` registered sessions, and never more than `n` live yamux sessions at all
    (registered, in flight, or abandoned) -/
theorem C10_within_limit (d : Defects) (n : Nat) (r : Role) (acts : List Act) :
    (run d (St.init n r) acts).registeredCount ≤ n ∧ (run d (St.init n r) acts).openSessions ≤ n := by
  have hi := inv_reach d n r acts
  have h1 := registered_le_cap _ hi
  have h2 := openSessions_le_cap _ hi
  rw [run_cap] at h1 h2
  exact ⟨h1, h2⟩

/-- every failure branch of the loop (dial/accept error, `sessionFn` error, ping timeout / EOF / other)
    taken while the lifetime is live returns exactly one permit and goes back to the top of the loop -/
theorem C10_failure_returns_slot (d : Defects) (σ σ' : St) (a : Act) (hl : σ.live = true)
    (ha : a = .connErr ∨ a = .sessErr ∨ ∃ k, a = .pingErr k) (hs : step d σ a = some σ') :
    σ'.permits = σ.permits + 1 ∧ σ'.phase = .idle ∧ σ'.lostPermits = σ.lostPermits :=
  failure_returns_permit d σ σ' a hl ha hs

/-- every session death (remote close, local `Close()`, keep-alive failure, cancellation) is followed
    through: clean-up is enabled as soon as the session is dying and closes session and connection;
    the release that follows returns exactly one permit -/
theorem C10_death_returns_slot (d : Defects) (σ : St) (c mid : Nat) (hc : c < σ.conns.length) :
    ((σ.conn c).stage = .registered mid → (σ.conn c).dying σ.live = true → ∃ σ', step d σ (.cleanup c) = some σ' ∧
        (σ'.conn c).stage = .cleaned mid ∧ (σ'.conn c).connOpen = false ∧ (σ'.conn c).sessOpen = false) ∧
    ((σ.conn c).stage = .cleaned mid → ∃ σ', step d σ (.release c) = some σ' ∧ σ'.permits = σ.permits + 1 ∧
        (σ'.conn c).stage = .released mid) :=
  death_returns_permit d σ c mid hc

/-- **progress, termination**: from any reachable live state, a continuation in which connection
    attempts, session set-up and pings succeed (`healing`) has at most `healMeasure` steps -/
theorem C10_progress_bounded (d : Defects) (n : Nat) (r : Role) (acts good : List Act)
    (hl : (run d (St.init n r) acts).live = true) (hg : healRun d (run d (St.init n r) acts) good = true) :
    good.length ≤ healMeasure (run d (St.init n r) acts) :=
  (healRun_bounded d good _ (inv_reach d n r acts) hl hg).1

/-- **progress, outcome**: … and when such a continuation cannot be extended, exactly `n` sessions are
    registered, all of them healthy, no permit is free and the provider waits at the top of its loop -/
theorem C10_progress_full (d : Defects) (n : Nat) (r : Role) (acts good : List Act)
    (hl : (run d (St.init n r) acts).live = true) (hg : healRun d (run d (St.init n r) acts) good = true)
    (hmax : ∀ a, healing (run d (run d (St.init n r) acts) good) a = true →
              step d (run d (run d (St.init n r) acts) good) a = none) :
    let σ := run d (run d (St.init n r) acts) good
    σ.registeredCount = n ∧ σ.allHealthy = true ∧ σ.permits = 0 ∧ σ.phase = .idle := by
  obtain ⟨_, hl', hi'⟩ := healRun_bounded d good _ (inv_reach d n r acts) hl hg
  obtain ⟨h1, h2, h3, h4⟩ := heal_terminal d _ hi' hl' hmax
  rw [run_cap, run_cap] at h1
  exact ⟨h1, h4, h2, h3⟩

/-- **progress, existence**: such a continuation exists from every reachable live state -/
theorem C10_progress_exists (d : Defects) (n : Nat) (r : Role) (acts : List Act)
    (hl : (run d (St.init n r) acts).live = true) :
    ∃ good, healRun d (run d (St.init n r) acts) good = true ∧
      good.length ≤ healMeasure (run d (St.init n r) acts) ∧
      (run d (run d (St.init n r) acts) good).registeredCount = n ∧
      (run d (run d (St.init n r) acts) good).allHealthy = true := by
  obtain ⟨good, h1, h2, h3, h4, _⟩ := heal_exists d _ _ (Nat.le_refl _) (inv_reach d n r acts) hl
  rw [run_cap] at h3
  exact ⟨good, h1, h2, h3, h4⟩

/-! ## shutdown -/

/-- the full shutdown clause: in every maximal execution after `Cancel`, every session and every
    connection ever handed out is closed, the table is empty, the manager reports closed -/
def C10_shutdown_full (d : Defects) : Prop :=
  ∀ (n : Nat) (r : Role) (acts : List Act),
    (run d (St.init n r) acts).live = false → Maximal d (run d (St.init n r) acts) →
    (run d (St.init n r) acts).allClosed = true ∧ (run d (St.init n r) acts).registered = [] ∧
    (run d (St.init n r) acts).mgrClosed = true

/-- finding `C10-late-add-leaks-session`: `Cancel` lands between `Ping` and `addNewMux`;
    `AddConnection` returns early and nobody closes the session or the connection -/
def witnessLateAdd : List Act := [.acquire, .connOk, .sessOk, .cancel, .pingOk, .add, .acquireFail, .onClose]

/-- finding `C10-sessionfn-error-leaks-conn`: the `sessionFn` error branch never closes the raw connection -/
def witnessSessErr : List Act := [.acquire, .connOk, .sessErr, .cancel, .acquireFail, .onClose]

/-- finding `C10-exit-during-ping-leaks-session`: the lifetime ends while the first ping is pending and the
    ping then fails although the peer is alive: the provider returns before `session.Close(); conn.Close()` -/
def witnessExitDuringPing : List Act := [.acquire, .connOk, .sessOk, .cancel, .pingErr .writeTimeout, .onClose]

theorem C10_refuted_late_add :
    (run Defects.asIs (St.init 1) witnessLateAdd).live = false ∧
    (run Defects.asIs (St.init 1) witnessLateAdd).terminal = true ∧
    (run Defects.asIs (St.init 1) witnessLateAdd).allClosed = false ∧
    (run Defects.asIs (St.init 1) witnessLateAdd).openSessions = 1 := by decide

theorem C10_refuted_sessfn_error :
    (run Defects.asIs (St.init 1) witnessSessErr).live = false ∧
    (run Defects.asIs (St.init 1) witnessSessErr).terminal = true ∧
    (run Defects.asIs (St.init 1) witnessSessErr).allClosed = false := by decide

theorem C10_refuted_exit_during_ping :
    (run Defects.asIs (St.init 1) witnessExitDuringPing).live = false ∧
    (run Defects.asIs (St.init 1) witnessExitDuringPing).terminal = true ∧
    (run Defects.asIs (St.init 1) witnessExitDuringPing).allClosed = false := by decide

/-- the full statement is false of the current tree -/
theorem C10_refuted : ¬ C10_shutdown_full Defects.asIs := fun h => by
  have w := C10_refuted_late_add
  have := (h 1 .establisher witnessLateAdd w.1 (maximal_of_terminal _ _ w.2.1)).1
  rw [w.2.2.1] at this
  exact Bool.noConfusion this

/-- **partial**: for the current tree, every maximal execution after `Cancel` in which no step abandons
    an open resource — no `addNewMux` of a live session after `Cancel`, no `sessionFn` error, no ping
    failure after `Cancel` that leaves the session running (`noLeakAlong`) — ends with everything closed -/
theorem C10_shutdown_partial (n : Nat) (r : Role) (acts : List Act)
    (hnl : noLeakAlong Defects.asIs (St.init n r) acts = true)
    (hl : (run Defects.asIs (St.init n r) acts).live = false)
    (hmax : Maximal Defects.asIs (run Defects.asIs (St.init n r) acts)) :
    (run Defects.asIs (St.init n r) acts).allClosed = true ∧ (run Defects.asIs (St.init n r) acts).registered = [] ∧
    (run Defects.asIs (St.init n r) acts).mgrClosed = true := by
  obtain ⟨h1, h2, h3, _⟩ := shutdown_clean Defects.asIs n r acts hnl hl hmax
  exact ⟨h1, h2, h3⟩

/-- with the three repairs (close on late add, close the raw connection on `sessionFn` error, close
    before returning on lifetime end) the full statement holds -/
theorem C10_shutdown_fixed : C10_shutdown_full Defects.fixed := fun n r acts hl hmax => by
  obtain ⟨h1, h2, h3, _⟩ := shutdown_clean Defects.fixed n r acts (noLeakAlong_fixed acts _) hl hmax
  exact ⟨h1, h2, h3⟩

/-- after `Cancel` every execution is finite (any defects): at most `shutMeasure` enabled steps remain,
    so a maximal execution is always reached -/
theorem C10_shutdown_terminates (d : Defects) (n : Nat) (r : Role) (acts more : List Act)
    (hl : (run d (St.init n r) acts).live = false) :
    effectiveSteps d (run d (St.init n r) acts) more ≤ shutMeasure (run d (St.init n r) acts) :=
  shutdown_bounded d more _ (inv_reach d n r acts) hl

/-! ## non-vacuity -/

/-- a pool of 2: one session registered, one attempt fails on a silent peer, the registered session's
    peer disappears, cancellation arrives while the provider is dialling -/
def nvShutdown : List Act := [.acquire, .connOk, .sessOk, .pingOk, .add, .acquire, .connOk, .sessOk, .pingErr .writeTimeout,
  .peerClose 0, .cleanup 0, .release 0, .acquire, .cancel, .connErr, .onClose]

/-- … the hypotheses of the partial theorem hold, the execution is maximal, everything is closed -/
example :
    noLeakAlong Defects.asIs (St.init 2) nvShutdown = true ∧ (run Defects.asIs (St.init 2) nvShutdown).live = false ∧
    (run Defects.asIs (St.init 2) nvShutdown).terminal = true ∧ (run Defects.asIs (St.init 2) nvShutdown).allClosed = true ∧
    (run Defects.asIs (St.init 2) nvShutdown).conns.length = 2 := by decide +kernel

/-- the late-add witness on the repaired tree ends clean -/
example : (run Defects.fixed (St.init 1) witnessLateAdd).terminal = true ∧
    (run Defects.fixed (St.init 1) witnessLateAdd).allClosed = true := by decide

/-- a pool of 3 with a dead registered session, a doomed attempt in flight and a free slot -/
def nvHeal : List Act := [.acquire, .connOk, .sessOk, .pingOk, .add, .peerClose 0, .acquire, .connOk, .sessOk, .peerClose 1]

/-- … is live, has one (dead) session registered, and the driver's `heal` refills it to 3 healthy sessions -/
example :
    (run Defects.asIs (St.init 3) nvHeal).live = true ∧ (run Defects.asIs (St.init 3) nvHeal).registeredCount = 1 ∧
    (heal Defects.asIs 6 (run Defects.asIs (St.init 3) nvHeal)).registeredCount = 3 ∧
    (heal Defects.asIs 6 (run Defects.asIs (St.init 3) nvHeal)).allHealthy = true := by decide +kernel

end S2S.MuxPool
