import S2S.Model.Acl
/-!
# C15 — inbound admin calls outside the allow-list never reach the local cluster

Decision-logic theorems over `S2S/Model/Acl.lean`, for **every** allow-list (any list of
strings), every method name and every request — nothing is enumerated.  The classification of a
full gRPC method name (`serviceOf`, `methodName`: two prefix tests and the suffix after the last
'/') is executable model code compared with the real interceptor for every method of both service
descriptors by the harness; the theorems are stated over the classified form.
-/
namespace S2S.Acl

/-- A non-listed admin method is refused — unary and streaming — whatever the request contains. -/
theorem C15_unlisted_admin_denied (p : Policy) (name : String) (ns : List String)
    (hne : p.adminMethods ≠ []) (hnot : name ∉ p.adminMethods) :
    aclUnaryOn p .admin name ns = .denied ∧ aclStreamOn p .admin name = .denied := by
  have h : isAllowed p.adminMethods name = false := by
    unfold isAllowed
    have h1 : p.adminMethods.isEmpty = false := by
      cases hl : p.adminMethods with
      | nil => exact absurd hl hne
      | cons a r => rfl
    have h2 : p.adminMethods.contains name = false := by
      simpa using hnot
    rw [h1, h2]; rfl
  simp [aclUnaryOn, aclStreamOn, h]

/-- Namespace registration and deprecation are always refused under a policy. -/
theorem C15_namespace_lifecycle_denied (p : Policy) (name : String) (ns : List String)
    (h : name = "RegisterNamespace" ∨ name = "DeprecateNamespace") :
    aclUnaryOn p .workflow name ns = .denied := by
  rcases h with h | h <;> subst h <;> simp [aclUnaryOn, denyList]

/-- Allowed methods are forwarded: a listed admin method (or any admin method under an empty =
    unrestricted list) whose request names only allowed namespaces reaches the next handler. -/
theorem C15_allowed_forwarded (p : Policy) (name : String) (ns : List String)
    (hm : p.adminMethods = [] ∨ name ∈ p.adminMethods)
    (hns : ∀ n ∈ ns, isAllowed p.namespaces n = true) :
    aclUnaryOn p .admin name ns = .forward ∧ aclStreamOn p .admin name = .forward := by
  have h : isAllowed p.adminMethods name = true := by
    unfold isAllowed; rcases hm with h | h
    · simp [h]
    · simp [h]
  have h2 : ns.any (fun n => !isAllowed p.namespaces n) = false := by
    simp only [List.any_eq_false]; intro n hn; simp [hns n hn]
  simp [aclUnaryOn, aclStreamOn, h, h2]

/-- The policy guards the remote-facing (inbound) server only, and it is the same for both
    transports (one `buildProxyServer`): the outbound server and a connection without a policy
    forward everything; the inbound server with a policy applies `aclUnary`/`aclStream`. -/
theorem C15_wiring (configured : Option Policy) (full : String) (ns : List String) :
    handleUnary false configured full ns = .forward ∧ handleStream false configured full = .forward ∧
    handleUnary true none full ns = .forward ∧
    (∀ p, handleUnary true (some p) full ns = aclUnary p full ns ∧ handleStream true (some p) full = aclStream p full) := by
  simp [handleUnary, handleStream, serverPolicy]

/-- methods of other services are not the interceptor's business (they do not exist on the proxy) -/
theorem C15_other_services_untouched (p : Policy) (name : String) (ns : List String) :
    aclUnaryOn p .other name ns = .forward := by simp [aclUnaryOn]

/-- non-vacuity -/
example : aclUnaryOn ⟨["DescribeCluster"], []⟩ .admin "AddSearchAttributes" [] = .denied ∧
    aclUnaryOn ⟨["DescribeCluster"], []⟩ .admin "DescribeCluster" [] = .forward ∧
    aclStreamOn ⟨["DescribeCluster"], []⟩ .admin "StreamWorkflowReplicationMessages" = .denied := by
  simp [aclUnaryOn, aclStreamOn, isAllowed]

end S2S.Acl
