import S2S.Proofs.RoutingLateInv
import S2S.Proofs.RoutingLateTight
/-!
# C03S — an acknowledgement that arrives late is still right

`C01_never_acks_unconfirmed` and `C03_acks_monotone_bounded` judge an acknowledgement at the step that SENDS it (the
model's `rack` / `tick` step is atomic).  In the real system the receiver's `Send` can block (a source cluster that is
slow to read), and in any case the acknowledgement ARRIVES later than it was sent, while the machine keeps running: more
batches are received, more confirmations come in.  What the source cluster relies on is what it has received so far —
some PREFIX of `acksSent` — judged against the state at that LATER time.

Setting, for all `ns nt` and all action lists `pre post` with `EnvOK Cfg.cur (State.init ns nt) (pre ++ post)` and
`NoFaults (pre ++ post)`:  `σi = run Cfg.cur (State.init ns nt) pre` (the state in which the acknowledgement had been
sent), `σj = run Cfg.cur σi post = run Cfg.cur (State.init ns nt) (pre ++ post)` (`C03S_run_append`; the later state).

1. `C03S_acks_history_grows`: `σi.acksSent <+: σj.acksSent` — what has been sent is a prefix of what will have been sent
   (this one needs neither hypothesis; see `Late.run_acks_prefix`: every configuration, faults included).
2. `C03S_late_ack_still_safe`: an acknowledgement sent at any earlier point covers, when judged at any LATER state
   (tasks received in between included), only confirmed tasks.
3. `C03S_visible_prefix_monotone_bounded`: in every reachable fault-free state, every prefix of the history (what the
   source cluster has seen) is non-decreasing and bounded by the last exclusive high watermark received.

Side conditions: exactly those of C01 / C03 (`EnvOK`, `NoFaults`); nothing was weakened.

4. `C03S_late_ack_safe_modulo_known` (runs WITH stream breaks and re-opens, hypothesis `EnvOKT` of
   `Spec/RoutingFaultsTight.lean`): an acknowledgement sent at any earlier point covers, judged at any later state with
   the ghost bookkeeping of that later state, only tasks that are `Confirmed` or `ExcusedT` (the two recorded findings
   `C04-target-break-loses-inflight`, `C04-source-restart-forgets-targets`, tight form).
-/
namespace S2S.Routing

/-- `σj` is the state after `pre ++ post` -/
theorem C03S_run_append (c : Cfg) (σ : State) (pre post : List Act) :
    run c σ (pre ++ post) = run c (run c σ pre) post :=
  Late.run_append c σ pre post

/-- **C03S (1)**: the history of sent acknowledgements only grows. -/
theorem C03S_acks_history_grows (ns nt : Nat) (pre post : List Act)
    (_henv : EnvOK Cfg.cur (State.init ns nt) (pre ++ post)) (_hnf : NoFaults (pre ++ post)) (s : SId) :
    ((run Cfg.cur (State.init ns nt) pre).src s).acksSent <+:
      ((run Cfg.cur (run Cfg.cur (State.init ns nt) pre) post).src s).acksSent :=
  Late.run_acks_prefix Cfg.cur _ post s

/-- auxiliary: `confirmed` is monotone along `step` (every configuration, faults included) -/
theorem C03S_confirmed_mono_step {c : Cfg} {σ σ' : State} {a : Act} (h : step c σ a = some σ')
    {s : SId} {id : Int} {t : TId} (hc : Confirmed σ s id t) : Confirmed σ' s id t :=
  (Late.step_confirmed h t).subset hc

/-- auxiliary: in every reachable fault-free state every acknowledgement ever sent is `≤ lastHigh` -/
theorem C03S_acks_le_lastHigh (ns nt : Nat) (acts : List Act)
    (henv : EnvOK Cfg.cur (State.init ns nt) acts) (hnf : NoFaults acts) (s : SId) :
    ∀ v ∈ ((run Cfg.cur (State.init ns nt) acts).src s).acksSent,
      v ≤ ((run Cfg.cur (State.init ns nt) acts).src s).lastHigh :=
  ((Late.linv_cur ns nt acts henv hnf).hist s).le_lastHigh

/-- the invariant form of (2): in every reachable fault-free state, EVERY acknowledgement in the history covers, among
    the tasks received so far, only confirmed ones (no `s < ns` needed) -/
theorem C03S_history_safe (ns nt : Nat) (acts : List Act)
    (henv : EnvOK Cfg.cur (State.init ns nt) acts) (hnf : NoFaults acts) :
    ∀ s, ∀ v ∈ ((run Cfg.cur (State.init ns nt) acts).src s).acksSent,
      ∀ p ∈ ((run Cfg.cur (State.init ns nt) acts).src s).received, p.1 < v →
        Confirmed (run Cfg.cur (State.init ns nt) acts) s p.1 p.2 :=
  (Late.linv_cur ns nt acts henv hnf).safe

/-- **C03S (2)**: an acknowledgement sent at any earlier point (`σi`) covers, when judged at any later state (`σj`,
    including the tasks received in between), only confirmed tasks. -/
theorem C03S_late_ack_still_safe (ns nt : Nat) (pre post : List Act)
    (henv : EnvOK Cfg.cur (State.init ns nt) (pre ++ post)) (hnf : NoFaults (pre ++ post)) :
    ∀ s, s < ns → ∀ v ∈ ((run Cfg.cur (State.init ns nt) pre).src s).acksSent,
      ∀ p ∈ ((run Cfg.cur (run Cfg.cur (State.init ns nt) pre) post).src s).received, p.1 < v →
        Confirmed (run Cfg.cur (run Cfg.cur (State.init ns nt) pre) post) s p.1 p.2 := by
  intro s _ v hv p hp hlt
  have hv' := (Late.run_acks_prefix Cfg.cur (run Cfg.cur (State.init ns nt) pre) post s).subset hv
  rw [← Late.run_append] at hv' hp ⊢
  exact C03S_history_safe ns nt (pre ++ post) henv hnf s v hv' p hp hlt

/-- **C03S (3)**: in every reachable fault-free state, every prefix of the acknowledgement history (what the source
    cluster has received so far) is non-decreasing and bounded by the last exclusive high watermark received. -/
theorem C03S_visible_prefix_monotone_bounded (ns nt : Nat) (acts : List Act)
    (henv : EnvOK Cfg.cur (State.init ns nt) acts) (hnf : NoFaults acts) (s : SId) (k : Nat) :
    ((((run Cfg.cur (State.init ns nt) acts).src s).acksSent.take k).Pairwise (· ≤ ·)) ∧
    ∀ v ∈ ((run Cfg.cur (State.init ns nt) acts).src s).acksSent.take k,
      v ≤ ((run Cfg.cur (State.init ns nt) acts).src s).lastHigh := by
  have H := (Late.linv_cur ns nt acts henv hnf).hist s
  exact ⟨H.sorted.sublist (List.take_sublist _ _), fun v hv => H.le_lastHigh v (List.mem_of_mem_take hv)⟩

/-- the state component of the ghost-threading run is the plain run -/
theorem C03S_runT_state (c : Cfg) (σ : State) (γ : GhostT) (acts : List Act) :
    (Late.runT c σ γ acts).1 = run c σ acts :=
  Late.runT_fst c σ γ acts

/-- auxiliary: `ExcusedT` is monotone along `step` (with the ghost update of that step) for a task already received -/
theorem C03S_excusedT_mono_step {σ σ' : State} {γ : GhostT} {a : Act} (h : step Cfg.cur σ a = some σ')
    {s : SId} {p : Int × TId} (hp : p ∈ (σ.src s).received) (he : ExcusedT σ γ s p) :
    ExcusedT σ' (γ.next Cfg.cur σ a) s p := by
  rw [ghostT_next_of_step γ h]; exact Late.excusedT_step h hp he

/-- **C03S (2), with faults, modulo the recorded findings (tight form)**: in a run with stream breaks and re-opens at
    any position, an acknowledgement sent at any earlier point (`σi`) covers, when judged at any later state (`σj`)
    with the ghost bookkeeping `γj` of that later state, only tasks that are confirmed or excused there. -/
theorem C03S_late_ack_safe_modulo_known (ns nt : Nat) (pre post : List Act)
    (henv : EnvOKT Cfg.cur (State.init ns nt) {} (pre ++ post)) :
    ∀ s, s < ns → ∀ v ∈ ((run Cfg.cur (State.init ns nt) pre).src s).acksSent,
      ∀ p ∈ ((run Cfg.cur (run Cfg.cur (State.init ns nt) pre) post).src s).received, p.1 < v →
        Confirmed (run Cfg.cur (run Cfg.cur (State.init ns nt) pre) post) s p.1 p.2 ∨
        ExcusedT (run Cfg.cur (run Cfg.cur (State.init ns nt) pre) post)
          (Late.runT Cfg.cur (State.init ns nt) {} (pre ++ post)).2 s p := by
  intro s _ v hv p hp hlt
  have hv' := (Late.run_acks_prefix Cfg.cur (run Cfg.cur (State.init ns nt) pre) post s).subset hv
  have hL := Late.linvT_cur ns nt (pre ++ post) henv
  rw [Late.runT_fst] at hL
  rw [← Late.run_append] at hv' hp ⊢
  exact hL.safe s v hv' p hp hlt

/-! ### non-vacuity -/

set_option maxRecDepth 8000   -- the witnesses (42 machine steps) are evaluated by `decide`


/-- two targets; tasks 5 → target 0, 7 → target 1, both confirmed (acknowledgements 5, 5), then 9 → target 0,
    confirmed: the receiver sends 7 (covers task 5) -/
def lateWitnessPre : List Act :=
  [.openTgt 0, .startTgt 0, .replayDone 0, .openTgt 1, .startTgt 1, .replayDone 1, .openSrc 0,
   .recv 0 [(5, 0), (7, 1)] 9, .deliver 0 0, .deliver 0 1, .take 0, .emit 0, .take 1, .emit 1,
   .tack 0 2, .ackFwd 0 0, .ackFin 0, .rack 0,
   .tack 1 2, .ackFwd 1 0, .ackFin 1, .rack 0,
   .recv 0 [(9, 0)] 12, .deliver 0 0, .take 0, .emit 0, .tack 0 3, .ackFwd 0 0, .ackFin 0, .rack 0]

/-- while that acknowledgement is on its way: tasks 12 → target 0 and 13 → target 1 are received and forwarded, the
    keep-alive re-sends 7, target 0 confirms 12 (target 1 stays silent about 13), the receiver sends 7 again -/
def lateWitnessPost : List Act :=
  [.recv 0 [(12, 0), (13, 1)] 15, .deliver 0 1, .deliver 0 0, .take 0, .emit 0, .take 1, .emit 1, .tick,
   .tack 0 4, .ackFwd 0 0, .ackFin 0, .rack 0]

/-- the hypotheses accept the run -/
example : EnvOK Cfg.cur (State.init 1 2) (lateWitnessPre ++ lateWitnessPost) ∧
    NoFaults (lateWitnessPre ++ lateWitnessPost) := by decide

/-- acknowledgements really are sent in `pre` (the last one, 7, covers task 5) … -/
example :
    ((run Cfg.cur (State.init 1 2) lateWitnessPre).src 0).acksSent = [5, 5, 7] ∧
    ((run Cfg.cur (State.init 1 2) lateWitnessPre).src 0).received = [(5, 0), (7, 1), (9, 0)] := by decide

/-- … and in `post` further tasks are received, one of them is confirmed, one is not (it lies above every
    acknowledgement sent), and the history has grown -/
example :
    let σj := run Cfg.cur (run Cfg.cur (State.init 1 2) lateWitnessPre) lateWitnessPost
    (σj.src 0).acksSent = [5, 5, 7, 7, 7] ∧
    (σj.src 0).received = [(5, 0), (7, 1), (9, 0), (12, 0), (13, 1)] ∧
    (σj.src 0).lastHigh = 15 ∧
    Confirmed σj 0 5 0 ∧ Confirmed σj 0 12 0 ∧ ¬ Confirmed σj 0 13 1 := by decide

/-- with faults: task 7 → target 1 is never confirmed; the source stream breaks and re-opens, the new incarnation has
    forgotten target 1 (recorded finding `C04-source-restart-forgets-targets`) and sends 9 -/
def lateWitnessFaultPre : List Act :=
  [.openTgt 0, .startTgt 0, .replayDone 0, .openTgt 1, .startTgt 1, .replayDone 1, .openSrc 0,
   .recv 0 [(5, 0), (7, 1)] 9, .deliver 0 0, .deliver 0 1, .take 0, .emit 0, .take 1, .emit 1,
   .tack 0 2, .ackFwd 0 0, .ackFin 0, .rack 0,
   .breakSrc 0, .openSrc 0,
   .recv 0 [(9, 0)] 12, .deliver 0 0, .take 0, .emit 0, .tack 0 3, .ackFwd 0 0, .ackFin 0, .rack 0]

/-- the acknowledgement 9 sent in `pre` covers, judged after `post` (more tasks received, one more confirmed), the task
    (7, 1), which is still not confirmed there — and is excused there -/
example :
    let σi := run Cfg.cur (State.init 1 2) lateWitnessFaultPre
    let σj := run Cfg.cur σi lateWitnessPost
    let γj := (Late.runT Cfg.cur (State.init 1 2) {} (lateWitnessFaultPre ++ lateWitnessPost)).2
    EnvOKT Cfg.cur (State.init 1 2) {} (lateWitnessFaultPre ++ lateWitnessPost) ∧
    (σi.src 0).acksSent = [5, 9] ∧ (σj.src 0).acksSent = [5, 9, 9, 12] ∧
    (σj.src 0).received = [(5, 0), (7, 1), (9, 0), (12, 0), (13, 1)] ∧
    Confirmed σj 0 12 0 ∧ ¬ Confirmed σj 0 7 1 ∧ ExcusedT σj γj 0 (7, 1) := by decide

end S2S.Routing
