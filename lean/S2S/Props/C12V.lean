import S2S.Proofs.TranslateValPath
import S2S.Props.C12
import S2S.Props.C13V
/-!
# C12 at the level of VALUES — the path model and the value model agree

`S2S.Translate.translates g tb p` (the path model of C12: "the visitor translates a namespace name sitting at the end of the
structural path `p`") is connected to the value-level model of the visitor (`translateNs`, validated against the real code
by the `valns` ops):

* `C12_leaf_values_translated`: for EVERY graph, tables, mapping and value tree, every path `p` that is realised in the
  tree (`leafAt … = some s`: along `p`, with a positional choice of slice element / map entry / blob / event at every
  step, the tree has structs of the types the path names, and a Go string `s` at the leaf field), if the path model says
  `translates g tb p = true`, then the string at the same position of the translated tree is `translateName m s`.
  Side conditions (all decidable, all true for the current tree's tables / for decoded real histories):
  `pathOK` — the path model's reading of the tree along the path is right: a `History` is left through `Events`, and an
  event skipped by the shortcut on the VALUES (event-type field, link namespaces) is one where the path model blocks on
  the TYPE of the attributes entered (i.e. event type consistent with its attributes; the path does not end in an empty
  link namespace of a skippable event — the code never offers that empty name to the matcher);
  the root is not skipped as a whole (`ListWorkflowExecutionsResponse`: the path model does not know that shortcut);
  `Name` is not a namespace field name (else NamespaceInfo.Name would go through the matcher twice) and no field name is
  in both `namespaceFieldNames` and `dataBlobFieldNames` (the code tests the blob table first; the path model does not).
* `C12_every_realised_leaf_translated`: with C12's coverage theorem, for the regenerated graph of the current tree every
  well-formed path to a namespace-name leaf that is realised in a message holds the translated name afterwards.
-/
namespace S2S.TranslateVal
open S2S.Translate S2S.NameMap

variable {α : Type} [DecidableEq α]

theorem C12_leaf_values_translated (g : Graph) (tb : Tables) (X : Ext α) (m : List (α × α))
    (hN : tb.ns.contains g.nameField = false) (hdis : tablesDisjoint tb = true)
    (v : Val α) (p : Path) (picks : List Pick) (s : α)
    (hroot : rootSkippable g tb X v = false)
    (hreal : leafAt g p.leafTy p.leafIdx v p.steps picks = some s)
    (hok : pathOK g tb X v p.steps picks false = true)
    (htr : translates g tb p = true) :
    leafAt g p.leafTy p.leafIdx (translateNs g tb X m v).1 p.steps picks = some (translateName m s) := by
  unfold translates at htr
  simp only [Bool.and_eq_true] at htr
  unfold translateNs visitNamespace
  rw [hroot]
  simp only [Bool.false_eq_true, if_false]
  have := leaf_translated g tb X (look m) (nameOnce_of g tb hN) hdis p.leafTy p.leafIdx htr.2 p.steps v picks none false s
    hreal htr.1 hok
  rw [app_look, look_fst] at this
  exact this

/-- the side conditions on the tables hold for the current tree -/
example : tablesDisjoint S2S.Gen.TG.tables = true := by decide
example : S2S.Gen.TG.tables.ns.contains S2S.Gen.TG.graph.nameField = false := by decide

/-- C12's coverage theorem lifted to values: on the regenerated type graph, EVERY well-formed path to a namespace-name leaf
    (any length, any nesting, through blobs) that is realised in a message holds the translated name after translation -/
theorem C12_every_realised_leaf_translated (X : Ext α) (m : List (α × α)) (root : Nat) (p : Path)
    (hw : WellFormed S2S.Gen.TG.graph S2S.Gen.TG.tables root p)
    (v : Val α) (picks : List Pick) (s : α)
    (hroot : rootSkippable S2S.Gen.TG.graph S2S.Gen.TG.tables X v = false)
    (hreal : leafAt S2S.Gen.TG.graph p.leafTy p.leafIdx v p.steps picks = some s)
    (hok : pathOK S2S.Gen.TG.graph S2S.Gen.TG.tables X v p.steps picks false = true) :
    leafAt S2S.Gen.TG.graph p.leafTy p.leafIdx (translateNs S2S.Gen.TG.graph S2S.Gen.TG.tables X m v).1 p.steps picks
      = some (translateName m s) :=
  C12_leaf_values_translated S2S.Gen.TG.graph S2S.Gen.TG.tables X m (by decide) (by decide) v p picks s hroot hreal hok
    (C12_every_path_translated root p hw)

/-! non-vacuity, on the graph of `C13V`: the namespace of the SECOND event of the first blob (path: blob field 1 of the
    root, `Attributes` of the event, leaf field 0 of the attributes) -/
def exPath : Path := ⟨[.blob 0 1, .field 1 2 2], 2, 0⟩
def exPicks : List Pick := [⟨0, 1⟩, ⟨0, 0⟩]
example : leafAt Ex.g 2 0 Ex.msg1 exPath.steps exPicks = some 11 := by rfl
example : translates Ex.g Ex.tb exPath = true := by decide
example : pathOK Ex.g Ex.tb Ex.X Ex.msg1 exPath.steps exPicks false = true := by rfl
example : leafAt Ex.g 2 0 (translateNs Ex.g Ex.tb Ex.X Ex.chain Ex.msg1).1 exPath.steps exPicks = some 12 := by rfl
/-- `pathOK` is not vacuous either: an empty link namespace in a skippable event is a leaf the path model calls translated
    while the code skips the event; `pathOK` is false there (and the name, being empty, stays empty) -/
def linkPath : Path := ⟨[.blob 0 1, .field 1 1 3, .field 3 0 4, .field 4 0 5], 5, 0⟩
def linkPicks : List Pick := [⟨0, 0⟩, ⟨0, 0⟩, ⟨0, 0⟩, ⟨0, 0⟩]
example : translates Ex.g Ex.tb linkPath = true := by decide
example : pathOK Ex.g Ex.tb Ex.X (.msg 0 [.str 13, .list [.blobEv false [Ex.linked 0]], .str 0]) linkPath.steps linkPicks false = false := by rfl
example : pathOK Ex.g Ex.tb Ex.X (.msg 0 [.str 13, .list [.blobEv false [Ex.linked 10]], .str 0]) linkPath.steps linkPicks false = true := by rfl

end S2S.TranslateVal
