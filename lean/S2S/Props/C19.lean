import S2S.Model.Tls
/-!
# C19 — TLS endpoints admit only peers authenticated by the configured CA

Decision-logic theorems over `S2S/Model/Tls.lean`: the configuration the code assembles
(`serverTLS`, `clientTLS`) composed with a decision model of `crypto/tls` admission.  The harness
compares the assembled `tls.Config` fields with the model for every configuration and validates the
admission model with real handshakes for the full cross product of credentials × configurations
× roles.  X.509 path validation is modelled (`chainsToCA`), not verified.
-/
namespace S2S.Tls

/-- Server role, verification configured: every admitted peer presented a certificate that chains to
    the configured CA — for every configuration. -/
theorem C19_server_admits_only_ca_peers (c : Config) (conf : ServerConf) (cred : Cred)
    (hv : c.skipVerify = false) (hb : serverTLS curVerifyMode c = .ok conf)
    (ha : serverAdmits conf cred = true) : chainsToCA cred = true ∧ cred ≠ .none := by
  unfold serverTLS curVerifyMode at hb
  cases hen : c.isEnabled <;> simp [hen, hv] at hb
  split at hb
  · injection hb with hb; subst hb
    simp [serverAdmits] at ha
    exact ⟨ha.2.1, by intro h; simp [h] at ha⟩
  · cases hb

/-- Client role, verification configured with a CA file: every admitted server chains to the
    configured CA and matches the configured name. -/
theorem C19_client_admits_only_ca_servers (c : Config) (conf : ClientConf) (cred : Cred)
    (hv : c.skipVerify = false) (hca : c.caFile ≠ .unset) (hb : clientTLS c = .ok conf)
    (ha : clientAdmits conf cred = true) : chainsToCA cred = true ∧ nameMatches cred = true := by
  unfold clientTLS at hb
  cases hen : c.isEnabled <;> simp [hen, hv] at hb
  cases hsn : c.serverName <;> simp [hsn] at hb
  cases hf : c.caFile <;> simp [hf, caLoads] at hb hca
  · subst hb
    simp [clientAdmits] at ha
    exact ⟨ha.2.1, ha.2.2⟩

/-- A CA bundle that cannot be loaded or contains no CA certificate never yields an endpoint when
    verification is on (start-up error, fails closed). -/
theorem C19_bad_ca_bundle_fails_closed (c : Config) (hen : c.isEnabled = true) (hv : c.skipVerify = false)
    (hca : c.caFile = .noCACert ∨ c.caFile = .unreadable) :
    serverTLS curVerifyMode c = .error ∧ clientTLS c ≠ .ok { insecureSkipVerify := false, serverNameSet := true, customRoots := true, hasCert := c.hasCertKey } := by
  rcases hca with h | h <;> simp [serverTLS, clientTLS, hen, hv, h, caLoads] <;> cases c.serverName <;> simp

/-- Explicitly disabling verification is the only way to relax admission: any configuration that
    admits a self-signed, foreign-CA, expired, wrong-usage or absent certificate on either role has
    `skipVerify = true` (client role: or relies on the host's system roots because no CA file is set). -/
theorem C19_only_skip_relaxes (c : Config) (cred : Cred) (hbad : chainsToCA cred = false) :
    (∀ conf, serverTLS curVerifyMode c = .ok conf → serverAdmits conf cred = true → c.skipVerify = true) ∧
    (∀ conf, clientTLS c = .ok conf → clientAdmits conf cred = true → c.skipVerify = true ∨ c.caFile = .unset) := by
  constructor
  · intro conf hb ha
    cases hs : c.skipVerify
    · have := C19_server_admits_only_ca_peers c conf cred hs hb ha
      simp [hbad] at this
    · rfl
  · intro conf hb ha
    cases hs : c.skipVerify
    · unfold clientTLS at hb
      cases hen : c.isEnabled <;> simp [hen, hs] at hb
      cases hsn : c.serverName <;> simp [hsn] at hb
      cases hf : c.caFile <;> simp [hf, caLoads] at hb <;> subst hb <;> simp [clientAdmits, hbad] at ha
      exact Or.inr rfl
    · exact Or.inl rfl

/-- The pinned tree's server mode (`RequireAnyClientCert`) admitted a self-signed client although
    verification was configured. (Fixed finding.) -/
theorem C19_refuted_before_fix :
    let c : Config := { hasCertKey := true, serverName := true, caFile := .good, skipVerify := false }
    ∃ conf, serverTLS .requireAnyClientCert c = .ok conf ∧ serverAdmits conf .selfSigned = true ∧ chainsToCA .selfSigned = false :=
  ⟨{ clientAuth := .requireAnyClientCert, hasCAs := true, hasCert := true }, by decide, by decide, by decide⟩

/-- non-vacuity: the same configuration on the current tree admits the valid peer and refuses the self-signed one. -/
example :
    let c : Config := { hasCertKey := true, serverName := true, caFile := .good, skipVerify := false }
    ∃ conf, serverTLS curVerifyMode c = .ok conf ∧ serverAdmits conf .validChain = true ∧ serverAdmits conf .selfSigned = false :=
  ⟨{ clientAuth := .requireAndVerifyClientCert, hasCAs := true, hasCert := true }, by decide, by decide, by decide⟩

end S2S.Tls
