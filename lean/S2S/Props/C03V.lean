import S2S.Proofs.RoutingLateC03
/-!
# C03, as seen by the source cluster

`C03_acks_monotone_bounded` speaks about the moment an acknowledgement is SENT. What the source cluster has received at
any time is a PREFIX of what has been sent (a `Send` can block on a slow reader; delivery takes time). This file states
C03's safety half for every such prefix, judged against the LATER state, derived from `mono_bounded_cur` on the C03 proof
chain. (The companion statements on the C01 proof chain — a late acknowledgement still covers only confirmed tasks — are
in `Props/C03S.lean`, checked with C01: the two chains define homonymous invariants and cannot be imported together.)
-/
namespace S2S.Routing

theorem C03V_visible_prefix_monotone_bounded (ns nt : Nat) (acts : List Act)
    (henv : EnvOK Cfg.cur (State.init ns nt) acts) (hnf : NoFaults acts) (s : SId) (k : Nat) :
    ((((run Cfg.cur (State.init ns nt) acts).src s).acksSent.take k).Pairwise (· ≤ ·)) ∧
    ∀ v ∈ ((run Cfg.cur (State.init ns nt) acts).src s).acksSent.take k,
      v ≤ ((run Cfg.cur (State.init ns nt) acts).src s).lastHigh :=
  Late.visible_prefix_monotone_bounded_via_C03 ns nt acts henv hnf s k

end S2S.Routing
