import S2S.Proofs.RegistryExact
/-!
# C08 — reconnecting streams never orphan, steal or crash a shard's registration

Model: `S2S/Model/Registry.lean` — the five registries of `shardManagerImpl` (`localShards`,
`remoteSendChannels`, `localAckChannels`, `localReceiverCancelFuncs`, `activeReceivers`) as finite maps
shard ↦ incarnation token, and the life cycle of the `proxyStreamSender` / `proxyStreamReceiver` pair that
every routed stream creates, one atomic step of one goroutine per `Act`.  Every statement quantifies over
**every** list of actions: any number of shards, any number of incarnations per shard, every interleaving of
their steps with each other, with stream failures, with receivers that end on their own (`Act.selfEnd`: the upstream
`Send` fails, the shared latch ends receiver and sender), with deliveries, watermark broadcasts and replays.

The full statement `C08_full` (below) is FALSE of the current tree.  Each way of breaking it is one interleaving
window; for each window this file contains a kernel-checked witness (`C08_refuted_…`, replayed on the real code by
the harness on every run: known findings `C08-…` in known_findings.json) together with the kernel-checked fact that
the witness violates exactly ONE of the explicit hypotheses of `S2S/Spec/Registry.lean` and satisfies all others
(`verdict`).  What is proved for ALL runs (induction over the invariants of `S2S/Proofs/Registry*.lean`):

* `C08_identity_checked_registries` — no hypothesis: the two identity-checked registries never keep or lose a
  foreign entry, in any interleaving, for any configuration;
* `C08_no_crash` — no hypothesis: no send reaches a closed channel outside `recover`, in any interleaving
  (true since the fix of C08-replay-send-on-closed-channel; before it: `C08_refuted_before_fix_replay_send_on_closed_channel`);
* `C08_partial_cleanup_owns` — a clean-up removes only its own entries                        (`StampsOK`, `RecvOK`);
* `C08_partial_all_done_empty` — when every stream has ended nothing is registered            (`RecvOK`, `OpenOK`);
* `C08_partial_exact_at_quiescence` — at quiescence every registry holds exactly the newest live incarnation
                                                                       (`StampsOK`, `RecvOK`, `OpenOK`, `OrderOK`);
* `C08_partial` — all together: `Good` for every run satisfying `AllHyps`.

Hypotheses (decidable predicates on (state, action), threaded along the run by `Along`):
`StampsOK` two registrations of a shard see different clock values (environment);  `RecvOK` receiver start-ups and
un-cancelled receiver clean-ups of a shard are serial (windows iv, vii);  `OpenOK` the receiver's upstream stream opens
(window v);  `OrderOK` the incarnations of a shard start in the order in which their streams were opened (windows vi,
viii).  The two hypotheses that existed only because of repaired defects are gone from every theorem: `UnregOK`
(window ii, second delete of `UnregisterShard`) and `ReplayOK` (window iii, replay send without `recover`); their
definitions remain in the Spec only to say what the two before-fix witnesses do.
-/
namespace S2S.Registry

set_option maxRecDepth 8000   -- the witnesses are evaluated by the kernel (`decide`), some are 60 steps long

/-- **the full property**: for every interleaving, no crash, no clean-up removes a foreign entry, at quiescence the
    registries hold exactly the newest live incarnation of every shard, and once all have ended all are empty -/
def C08_full (c : Cfg) : Prop := ∀ acts : List Act, Good (run c State.init acts)

/-- all hypotheses together -/
def AllHyps (σ : State) (a : Act) : Prop :=
  StampsOK σ a ∧ RecvOK σ a ∧ OpenOK σ a ∧ OrderOK σ a

instance (σ : State) (a : Act) : Decidable (AllHyps σ a) := by unfold AllHyps; exact inferInstance

/-! ## theorems for all runs -/

/-- **no hypothesis**: in every interleaving an entry of `remoteSendChannels` / `localAckChannels` belongs to an
    incarnation of that shard that registered it and has not yet run its own identity-checked removal; so once
    every incarnation has ended both registries are empty. -/
theorem C08_identity_checked_registries (c : Cfg) (acts : List Act) :
    let σ := run c State.init acts
    (∀ sh t, aget σ.sendChans sh = some t →
        t < σ.next ∧ (σ.inc t).shard = sh ∧ (σ.inc t).spc ≠ .start ∧ (σ.inc t).spc ≠ .done) ∧
    (∀ sh t, aget σ.ackChans sh = some t →
        t < σ.next ∧ (σ.inc t).shard = sh ∧
          ((σ.inc t).rpc = .ackSet ∨ (σ.inc t).rpc = .cancelSet ∨ (σ.inc t).rpc = .running)) ∧
    (AllDone σ → ∀ sh, aget σ.sendChans sh = none ∧ aget σ.ackChans sh = none) :=
  channels_never_left_behind c acts

/-- **no crash**, no hypothesis: every send site of the current tree is guarded by `recover`, so in EVERY interleaving
    — including a watermark replay that finds the closed, still registered channel of a sender that is shutting down —
    no send on a closed channel escapes. -/
theorem C08_no_crash (acts : List Act) : (run Cfg.cur State.init acts).crashed = false :=
  noCrash_run rfl rfl rfl acts

/-- **clean-up removes only its own entries** (windows (iv), (vii) excluded, stamps distinct).  The second delete of
    `UnregisterShard` is gone, so no hypothesis about `UnregisterShard` is needed any more. -/
theorem C08_partial_cleanup_owns (acts : List Act) (h : Along Cfg.cur OwnHyp State.init acts) :
    (run Cfg.cur State.init acts).stolen = [] :=
  (invOwn_run rfl rfl acts h).clean

/-- **nothing remains** (additionally window (v) excluded; windows (iv), (vii) matter only for `activeReceivers`): when every
    incarnation has ended all five registries are empty -/
theorem C08_partial_all_done_empty (acts : List Act) (h : Along Cfg.cur EndHyp State.init acts) :
    AllDone (run Cfg.cur State.init acts) → Empty (run Cfg.cur State.init acts) :=
  all_done_empty acts h

/-- **exactly the newest live incarnation** (additionally windows (vi), (viii) excluded): at quiescence the five registries hold,
    for every shard, exactly the newest incarnation whose sender / receiver is live, and nothing when none is -/
theorem C08_partial_exact_at_quiescence (acts : List Act) (h : Along Cfg.cur ExactHyp State.init acts) :
    Quiescent (run Cfg.cur State.init acts) → Exact (run Cfg.cur State.init acts) :=
  exact_at_quiescence acts h

/-- **C08 under the explicit hypotheses**: every run of the current tree that avoids the remaining four windows is good -/
theorem C08_partial (acts : List Act) (h : Along Cfg.cur AllHyps State.init acts) :
    Good (run Cfg.cur State.init acts) :=
  ⟨C08_no_crash acts,
   C08_partial_cleanup_owns acts (along_mono (fun _ _ h => ⟨h.1, h.2.1⟩) acts _ h),
   C08_partial_exact_at_quiescence acts h,
   C08_partial_all_done_empty acts (along_mono (fun _ _ h => ⟨h.2.1, h.2.2.1⟩) acts _ h)⟩

/-! ## witnesses (every one is replayed on the real code by `go/eng/c08_registry_test.go`) -/

/-- undisturbed start-up of incarnation `i` (nothing registered for its shard) -/
def up (i : Tok) : List Act :=
  [.rGet i, .sSet i, .tick, .sAdd i, .sSnap i, .sNotifyDone i, .rOpen i true, .rSetAck i, .rSetCancel i, .rRegActive i]
/-- start-up of `i` that finds and terminates its predecessor -/
def upTerm (i : Tok) : List Act :=
  [.rGet i, .sSet i, .tick, .sAdd i, .sSnap i, .sNotifyDone i, .rCancel i, .rRmCancel i, .rForceAck i, .rOpen i true,
   .rSetAck i, .rSetCancel i, .rRegActive i]
def downS (i : Tok) : List Act := [.sClose i, .sUnregCheck i, .sUnregAgain i, .sRmChan i]
def downR (i : Tok) : List Act := [.rRmAck i, .rCheck i, .rRmOwnCancel i, .rUnregActive i]

/-- what a witness shows: the outcome, and which hypotheses its run satisfies (`unreg`, `replay`: the two historic
    windows, closed by fixes — no theorem of the current tree needs them) -/
structure Verdict where
  (crashed stoleForeign quiescent exact201 allDone empty201 : Bool)
  (stamps unreg replay recv opens order : Bool)
deriving DecidableEq, Repr

def verdict (c : Cfg) (w : List Act) : Verdict :=
  let σ := run c State.init w
  { crashed := σ.crashed, stoleForeign := !σ.stolen.isEmpty, quiescent := decide (Quiescent σ),
    exact201 := decide (ExactAt σ 201), allDone := decide (AllDone σ), empty201 := decide (EmptyAt σ 201),
    stamps := decide (Along c StampsOK State.init w), unreg := decide (Along c UnregOK State.init w),
    replay := decide (Along c ReplayOK State.init w), recv := decide (Along c RecvOK State.init w),
    opens := decide (Along c OpenOK State.init w), order := decide (Along c OrderOK State.init w) }

/-- window (ii), BEFORE ITS FIX: incarnation 0 sits between the two deletes of `UnregisterShard`, incarnation 1 registers, the
    second delete wipes its entry.  (On the current tree the same schedule is harmless: there is no second delete.) -/
def wUnreg : List Act :=
  [.open 201 1] ++ up 0 ++ [.brk 0, .sNotice 0, .sClose 0, .sUnregCheck 0] ++ downR 0 ++
  [.open 201 1, .rGet 1, .sSet 1, .tick, .sAdd 1, .sUnregAgain 0, .sRmChan 0,
   .sSnap 1, .sNotifyDone 1, .rOpen 1 true, .rSetAck 1, .rSetCancel 1, .rRegActive 1]

/-- window (iii), BEFORE ITS FIX: a receiver holds a watermark; incarnation 1 of shard 201 is inside `RegisterShard`,
    incarnation 2 replaces the channel, runs and closes it; incarnation 1's replay finds the closed channel: a send
    without `recover`.  (On the current tree the send is caught.) -/
def wReplay : List Act :=
  [.open 101 2] ++ up 0 ++ [.wm 0,
   .open 201 1, .rGet 1, .sSet 1, .tick, .sAdd 1, .rOpen 1 true, .rSetAck 1, .rSetCancel 1, .rRegActive 1,
   .open 201 1, .rGet 2, .sSet 2, .tick, .sAdd 2, .sSnap 2, .sLook 2 0, .sSend 2, .sNotifyDone 2,
   .brk 2, .sNotice 2, .sClose 2,
   .sSnap 1, .sLook 1 0, .sSend 1]

/-- window (iv): the old receiver passes its context check, THEN the successor terminates it and registers; the old
    receiver's unconditional removals delete the successor's cancel function and active-receiver entry -/
def wCleanup : List Act :=
  [.open 201 1] ++ up 0 ++ [.brk 0, .sNotice 0] ++ downS 0 ++ [.rRmAck 0, .rCheck 0, .open 201 1] ++ upTerm 1 ++
  [.rRmOwnCancel 0, .rUnregActive 0]

/-- window (v): the successor terminates the old receiver and then fails to open its own stream; the old receiver
    (cancelled by a successor) skips its removals: its active-receiver entry stays for ever -/
def wOpenFail : List Act :=
  [.open 201 1] ++ up 0 ++
  [.open 201 1, .rGet 1, .sSet 1, .tick, .sAdd 1, .sSnap 1, .sNotifyDone 1, .rCancel 1, .rRmCancel 1, .rForceAck 1,
   .rOpen 1 false, .rNotice 0] ++ downS 0 ++ [.rRmAck 0, .rCheck 0, .brk 1, .sNotice 1] ++ downS 1

/-- window (vi): the sender of the OLDER incarnation registers after the newer one (and after having been told to
    shut down), overwrites its entries and then removes "its own": the live newest incarnation is unregistered -/
def wLate : List Act :=
  [.open 201 1, .rGet 0, .rOpen 0 true, .rSetAck 0, .rSetCancel 0, .rRegActive 0, .open 201 1] ++ upTerm 1 ++
  [.rNotice 0, .rRmAck 0, .rCheck 0, .sSet 0, .tick, .sAdd 0, .sSnap 0, .sNotifyDone 0] ++ downS 0

/-- window (vii): two receiver start-ups overlap: incarnation 1 looks the predecessor up, incarnation 2 starts and
    registers, incarnation 1 continues: evicts 2's entries, registers, ends — live incarnation 2 has no receiver entry -/
def wOverlap : List Act :=
  [.open 201 1] ++ up 0 ++ [.open 201 1, .rGet 1, .sSet 1, .tick, .sAdd 1, .sSnap 1, .sNotifyDone 1, .open 201 1] ++
  upTerm 2 ++ [.rNotice 0] ++ downS 0 ++ [.rRmAck 0, .rCheck 0,
   .rCancel 1, .rRmCancel 1, .rForceAck 1, .rOpen 1 true, .rSetAck 1, .rSetCancel 1, .rRegActive 1,
   .brk 1, .sNotice 1] ++ downS 1 ++ downR 1

/-- environment: two registrations in one clock instant — `UnregisterShard` of the old one deletes the new entry -/
def wStamps : List Act :=
  [.open 201 1] ++ up 0 ++
  [.open 201 1, .rGet 1, .sSet 1, .sAdd 1, .sSnap 1, .sNotifyDone 1, .rCancel 1, .rRmCancel 1, .rForceAck 1, .rOpen 1 true,
   .rSetAck 1, .rSetCancel 1, .rRegActive 1, .rNotice 0] ++ downS 0 ++ [.rRmAck 0, .rCheck 0]

/-- the plain reconnect: incarnation 1 replaces incarnation 0, which cleans up afterwards -/
def wReconnect : List Act :=
  [.open 201 1] ++ up 0 ++ [.open 201 1] ++ upTerm 1 ++ [.rNotice 0] ++ downS 0 ++ downR 0

/-- **fixed finding C08-unregister-double-delete**: before the fix the schedule lost incarnation 1's `localShards` entry
    (only the historic hypothesis `UnregOK` is violated); on the current tree the same schedule ends exactly registered. -/
theorem C08_refuted_before_fix_unregister_double_delete :
    verdict Cfg.beforeUnregFix wUnreg =
      { crashed := false, stoleForeign := true, quiescent := true, exact201 := false, allDone := false, empty201 := false,
        stamps := true, unreg := false, replay := true, recv := true, opens := true, order := true } ∧
    verdict Cfg.cur wUnreg =
      { crashed := false, stoleForeign := false, quiescent := true, exact201 := true, allDone := false, empty201 := false,
        stamps := true, unreg := false, replay := true, recv := true, opens := true, order := true } := by decide

/-- **fixed finding C08-replay-send-on-closed-channel**: before the fix the schedule crashed the process (only the historic
    hypothesis `ReplayOK` is violated); on the current tree the same send is swallowed by `recover`. -/
theorem C08_refuted_before_fix_replay_send_on_closed_channel :
    verdict Cfg.beforeReplayFix wReplay =
      { crashed := true, stoleForeign := false, quiescent := false, exact201 := false, allDone := false, empty201 := false,
        stamps := true, unreg := true, replay := false, recv := true, opens := true, order := true } ∧
    (run Cfg.cur State.init wReplay).crashed = false ∧ (run Cfg.cur State.init wReplay).caught = 1 := by decide

theorem C08_refuted_cleanup_check_then_remove :
    verdict Cfg.cur wCleanup =
      { crashed := false, stoleForeign := true, quiescent := true, exact201 := false, allDone := false, empty201 := false,
        stamps := true, unreg := true, replay := true, recv := false, opens := true, order := true } := by decide

theorem C08_refuted_stale_active_receiver :
    verdict Cfg.cur wOpenFail =
      { crashed := false, stoleForeign := false, quiescent := true, exact201 := false, allDone := true, empty201 := false,
        stamps := true, unreg := true, replay := true, recv := true, opens := false, order := true } := by decide

theorem C08_refuted_late_start_of_older_incarnation :
    verdict Cfg.cur wLate =
      { crashed := false, stoleForeign := false, quiescent := true, exact201 := false, allDone := false, empty201 := false,
        stamps := true, unreg := true, replay := true, recv := true, opens := true, order := false } := by decide

theorem C08_refuted_overlapping_receiver_startups :
    verdict Cfg.cur wOverlap =
      { crashed := false, stoleForeign := false, quiescent := true, exact201 := false, allDone := false, empty201 := false,
        stamps := true, unreg := true, replay := true, recv := false, opens := true, order := true } := by decide

/-- the stamp hypothesis is necessary (environment assumption, not a finding: real clocks give distinct stamps) -/
theorem C08_refuted_without_distinct_stamps :
    verdict Cfg.cur wStamps =
      { crashed := false, stoleForeign := true, quiescent := true, exact201 := false, allDone := false, empty201 := false,
        stamps := false, unreg := true, replay := true, recv := true, opens := true, order := true } := by decide

/-- **fixed finding C08(i)** (`fix:` 0c8aedd): with the pre-fix unconditional receiver clean-up the PLAIN reconnect —
    every hypothesis holds — deleted the successor's cancel function and active-receiver entry. -/
theorem C08_refuted_before_fix :
    verdict Cfg.preFix wReconnect =
      { crashed := false, stoleForeign := true, quiescent := true, exact201 := false, allDone := false, empty201 := false,
        stamps := true, unreg := true, replay := true, recv := true, opens := true, order := true } := by decide

/-- the full statement is false of the current tree (four windows remain; here: window (iv)) -/
theorem C08_refuted : ¬ C08_full Cfg.cur := fun h => by
  have := (h wCleanup).2.1
  revert this; decide

/-! ## non-vacuity -/

/-- the plain reconnect satisfies every hypothesis on the current tree and ends exactly registered (incarnation 1
    holds all five registries of shard 201, incarnation 0 has ended) -/
example : verdict Cfg.cur wReconnect =
      { crashed := false, stoleForeign := false, quiescent := true, exact201 := true, allDone := false, empty201 := false,
        stamps := true, unreg := true, replay := true, recv := true, opens := true, order := true } ∧
    aget (run Cfg.cur State.init wReconnect).actives 201 = some 1 ∧
    liveReceiver (run Cfg.cur State.init wReconnect) 201 = some 1 := by decide

/-- a replay that does reach the new incarnation's open channel, and a send on a closed channel swallowed by `recover` -/
example : (run Cfg.cur State.init ([.open 101 2] ++ up 0 ++ [.wm 0, .open 201 1, .rGet 1, .sSet 1, .tick, .sAdd 1, .sSnap 1,
      .sLook 1 0, .sSend 1, .sNotifyDone 1, .brk 1, .sNotice 1, .sClose 1, .bcast 1])).caught = 1 := by decide

/-- everything ends, nothing remains -/
example : let σ := run Cfg.cur State.init (wReconnect ++ [.stop] ++ downS 1 ++ downR 1)
    AllDone σ ∧ EmptyAt σ 201 ∧ Along Cfg.cur AllHyps State.init (wReconnect ++ [.stop] ++ downS 1 ++ downR 1) := by decide

/-! ## the receiver ends ON ITS OWN (`Act.selfEnd`: the upstream `Send` of `sendAck` fails; nothing broken, nobody cancelled) -/

/-- `selfEnd` is what ends the incarnation: before it neither clean-up is enabled (the incoming stream is intact, no
    successor, the lifetime goes on); it is disabled unless the receiver is `running` (here: receiver 0 still starting
    up, and receiver 0 after its latch fired); it moves no pc, trips the shared latch, leaves `cancelled`/`broken` unset -/
example : let σ := run Cfg.cur State.init ([.open 201 1] ++ up 0)
    step Cfg.cur σ (.sClose 0) = none ∧ step Cfg.cur σ (.rRmAck 0) = none ∧
    step Cfg.cur σ (.sNotice 0) = none ∧ step Cfg.cur σ (.rNotice 0) = none ∧
    step Cfg.cur (run Cfg.cur State.init [.open 201 1, .rGet 0, .sSet 0]) (.selfEnd 0) = none ∧
    step Cfg.cur (run Cfg.cur σ [.selfEnd 0]) (.selfEnd 0) = none ∧
    (let x := (run Cfg.cur σ [.selfEnd 0]).inc 0
     x.spc = .running ∧ x.rpc = .running ∧ x.shutdown = true ∧ x.cancelled = false ∧ x.broken = false) ∧
    (step Cfg.cur (run Cfg.cur σ [.selfEnd 0]) (.sClose 0)).isSome ∧
    (step Cfg.cur (run Cfg.cur σ [.selfEnd 0]) (.rRmAck 0)).isSome := by decide

/-- start-up, the receiver ends on its own, both clean-ups (the receiver's un-cancelled one: all three removals): every
    registry of the shard is empty, both workers are `.done`, every hypothesis holds along the run -/
example : let w := [.open 201 1] ++ up 0 ++ [.selfEnd 0] ++ downS 0 ++ downR 0
    let σ := run Cfg.cur State.init w
    (σ.inc 0).spc = .done ∧ (σ.inc 0).rpc = .done ∧ (σ.inc 0).cancelled = false ∧ AllDone σ ∧ EmptyAt σ 201 ∧
    σ.localShards = [] ∧ σ.sendChans = [] ∧ σ.ackChans = [] ∧ σ.cancels = [] ∧ σ.actives = [] ∧
    σ.stolen = [] ∧ σ.crashed = false ∧ Along Cfg.cur AllHyps State.init w := by decide

/-- the same with the receiver's clean-up BEFORE the sender's (the two workers of an incarnation are not ordered) -/
example : let w := [.open 201 1] ++ up 0 ++ [.selfEnd 0] ++ downR 0 ++ downS 0
    let σ := run Cfg.cur State.init w
    AllDone σ ∧ EmptyAt σ 201 ∧ σ.stolen = [] ∧ Along Cfg.cur AllHyps State.init w := by decide

/-- a successor opens while the self-ended receiver is in its clean-up, BEFORE its context check (`cleanCheck`): the
    successor finds and cancels it, evicts its entries and registers; the old receiver then sees its cancelled context
    and skips its removals.  Every hypothesis holds; incarnation 1 ends up exactly registered, incarnation 0 has ended. -/
def wSelfEndReconnect : List Act :=
  [.open 201 1] ++ up 0 ++ [.selfEnd 0, .rRmAck 0, .open 201 1] ++ upTerm 1 ++ [.rCheck 0] ++ downS 0

example : verdict Cfg.cur wSelfEndReconnect =
      { crashed := false, stoleForeign := false, quiescent := true, exact201 := true, allDone := false, empty201 := false,
        stamps := true, unreg := true, replay := true, recv := true, opens := true, order := true } ∧
    (let σ := run Cfg.cur State.init wSelfEndReconnect
     (σ.inc 0).spc = .done ∧ (σ.inc 0).rpc = .done ∧ (σ.inc 0).cancelled = true ∧
     aget σ.cancels 201 = some 1 ∧ aget σ.actives 201 = some 1 ∧ liveReceiver σ 201 = some 1) := by decide

/-- the successor opens AFTER the self-ended receiver passed its context check (`cleanCancel`): this is window (iv) again
    (`C08-cleanup-check-then-remove`), now reached without any stream failure — the old receiver's unconditional removals
    delete the successor's cancel function and active-receiver entry.  Exactly `RecvOK` is violated (at `rGet 1`), as the
    theorems require. -/
def wSelfEndCleanup : List Act :=
  [.open 201 1] ++ up 0 ++ [.selfEnd 0] ++ downS 0 ++ [.rRmAck 0, .rCheck 0, .open 201 1] ++ upTerm 1 ++
  [.rRmOwnCancel 0, .rUnregActive 0]

example : verdict Cfg.cur wSelfEndCleanup =
      { crashed := false, stoleForeign := true, quiescent := true, exact201 := false, allDone := false, empty201 := false,
        stamps := true, unreg := true, replay := true, recv := false, opens := true, order := true } ∧
    (run Cfg.cur State.init wSelfEndCleanup).stolen = [(0, .cancels, 1), (0, .actives, 1)] := by decide

end S2S.Registry
