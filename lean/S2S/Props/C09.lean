import S2S.Proofs.GossipMain
import S2S.Proofs.GossipRoute
/-!
# C09 — proxy instances converge on one owner per shard and route to it

Model: `S2S/Model/Gossip.lean` — any number of nodes and shards, a multiset network of register /
unregister announcements and full-state snapshots, one global clock that advances only by `tick`.
`RegisterShard` is the two actions `add` (Created := now) and `announce` (stamped with a LATER now);
`deliver it keep` delivers any in-flight item and keeps it when `keep` (duplication); delay and
re-ordering are which item the schedule delivers when.  Every theorem below quantifies over EVERY
action list (`acts`), i.e. every order, delay and duplication, node leaves at any point.

ASSUMPTIONS (explicit): one global clock read by every `time.Now()` (the code compares clocks of
different machines directly); `UnregisterShard` is atomic w.r.t. `RegisterShard` of the same shard on
the same node (that window is C08's subject); a snapshot fits `LocalState`'s 4096-byte limit.

(a) ownership: `C09_holder_not_older_than_any_claim_that_reached_it` (PROVED, all schedules): a node
    that still holds `s` registered it no earlier than the STAMP of every register announcement of `s`
    that was delivered to it, hence no earlier than that claim's Created: only a newest claimant can
    remain (`C09_only_newest_claimant_remains`).  The "exactly one owner" form `C09_exactly_one_owner`
    is FALSE of the current tree (`C09_refuted`, witness `C09_overlapping_claims_evict_both`: two
    claims within one broadcast latency evict EACH OTHER — the announcement carries the time of the
    broadcast, not `Created`; reproduced on the real code by the harness: known finding
    `C09-overlapping-claims-evict-both`).  PROVED under the decidable hypothesis `DisjointWindows`
    (`C09_exactly_one_owner_partial`) and, without it, for the repaired model that stamps the
    announcement with `Created` (`C09_exactly_one_owner_fixed`).  `C09_equal_stamps_keep_both` is the
    other excluded point (no unique newest claim: outside the property's wording).
(b) leave: `C09_leave_removes_until_merge` (PROVED).  "Instances that left own nothing" at full
    strength (`C09_departed_own_nothing`) is FALSE (`C09_stale_merge_resurrects_departed`: a snapshot of
    the departed node still in flight is merged after `NotifyLeave`; known finding
    `C09-stale-merge-resurrects-departed`); PROVED when no such snapshot is in flight
    (`C09_departed_own_nothing_partial`).
(c) routing clause: decision-logic theorems over `deliverMsg` / `deliverAck`, all inputs.
(d) `ReconcilePeerStreams`: desired sets and pruning as pure functions.
-/
namespace S2S.Gossip

/-! ## (a) ownership -/

/-- **C09 (a)**, every schedule: a holder's `Created` is at least the stamp of every register
    announcement of the shard that was ever delivered to it. -/
theorem C09_holder_not_older_than_any_claim_that_reached_it (cfg : Cfg) (acts : List Act)
    (m : NodeId) (s : ShardId) (c t : Time)
    (hold : Holds (run cfg State.init acts) m s c) (saw : SawClaim (run cfg State.init acts) m s t) :
    t ≤ c :=
  holder_not_older cfg acts m s c t hold saw

/-- **C09 (a)**, every schedule in which every register announcement that was emitted has been
    delivered at least once: a node still holding `s` registered it no earlier than the `Created` AND
    the stamp of every claim of another node that was announced to it — only a newest claimant remains. -/
theorem C09_only_newest_claimant_remains (cfg : Cfg) (acts : List Act) (m : NodeId) (s : ShardId) (c : Time)
    (hold : Holds (run cfg State.init acts) m s c)
    (hdel : RegistersDelivered (run cfg State.init acts)) :
    ∀ k ∈ (run cfg State.init acts).claims, k.shard = s → regItem k m ∈ (run cfg State.init acts).emitted →
      k.created ≤ c ∧ k.stamp ≤ c := by
  intro k hk hs hem
  have h1 : k.stamp ≤ c := by
    apply holder_not_older cfg acts m s c k.stamp hold
    refine ⟨k.node, ?_⟩
    have := hdel _ hem rfl
    rw [regItem, hs] at this; exact this
  exact ⟨Nat.le_trans ((inv_run cfg acts).claimWf k hk).1 h1, h1⟩

/-- deliveries are deliveries of things that were really sent, and every register announcement in
    the histories is the announcement of a recorded claim of ANOTHER node, stamped inside its window -/
theorem C09_delivered_were_emitted (cfg : Cfg) (acts : List Act) :
    (∀ it ∈ (run cfg State.init acts).delivered, it ∈ (run cfg State.init acts).emitted) ∧
    (∀ src s t dst, Item.ann .register src s t dst ∈ (run cfg State.init acts).delivered →
      src ≠ dst ∧ ∃ c, Claim.mk src s c t ∈ (run cfg State.init acts).claims ∧ c ≤ t) := by
  refine ⟨fun it h => (inv_run cfg acts).netEmitted it (Or.inr h), ?_⟩
  intro src s t dst h
  obtain ⟨h1, c, h2⟩ := (inv_run cfg acts).regFrom src s t dst (Or.inr h)
  exact ⟨h1, c, h2, ((inv_run cfg acts).claimWf _ h2).1⟩

/-- the ownership clause at full strength: in a settled situation with a unique newest claim, exactly
    the newest claimant holds the shard -/
def C09_exactly_one_owner (cfg : Cfg) : Prop :=
  ∀ (acts : List Act) (s : ShardId),
    Settled (run cfg State.init acts) s → DistinctCreated (run cfg State.init acts) s →
    ∃ k, IsNewest (run cfg State.init acts) s k ∧ OwnersAre (run cfg State.init acts) s k.node k.created

def join01 : List Act := [.snapshot 0 1, .snapshot 1 0]

/-- node 1 registers and announces shard 1 inside node 0's window [Created = 1, stamp = 4] -/
def witnessOverlap : List Act := join01 ++
  [.tick, .add 0 1, .tick, .add 1 1, .tick, .announce 1 1, .tick, .announce 0 1,
   .deliver (.ann .register 1 1 3 0) false, .deliver (.ann .register 0 1 4 1) false,
   .deliver (.ann .unregister 0 1 4 1) false, .deliver (.ann .unregister 1 1 4 0) false]

/-- the excluded point of the current tree: both registrations are evicted, the shard is unowned,
    both local streams are still registered. -/
theorem C09_overlapping_claims_evict_both :
    Settled (run Cfg.asIs State.init witnessOverlap) 1 ∧ DistinctCreated (run Cfg.asIs State.init witnessOverlap) 1 ∧
    ¬ DisjointWindows (run Cfg.asIs State.init witnessOverlap) 1 ∧
    (run Cfg.asIs State.init witnessOverlap).net = [] ∧
    (∀ k ∈ (run Cfg.asIs State.init witnessOverlap).claims,
      aget ((run Cfg.asIs State.init witnessOverlap).node k.node).locals 1 = none ∧
      (aget ((run Cfg.asIs State.init witnessOverlap).node k.node).streams 1).isSome) := by decide

theorem C09_refuted : ¬ C09_exactly_one_owner Cfg.asIs := by
  intro h
  obtain ⟨hs, hd, _, _, hnone⟩ := C09_overlapping_claims_evict_both
  obtain ⟨k, ⟨hk, _, _⟩, hown⟩ := h witnessOverlap 1 hs hd
  have h1 := hown k.node
  rw [if_pos rfl, (hnone k hk).1] at h1
  cases h1

/-- **C09 (a), partial**: with pairwise disjoint claim windows exactly the newest claimant remains. -/
theorem C09_exactly_one_owner_partial (cfg : Cfg) (acts : List Act) (s : ShardId)
    (hset : Settled (run cfg State.init acts) s) (hdis : DisjointWindows (run cfg State.init acts) s) :
    ∃ k, IsNewest (run cfg State.init acts) s k ∧ OwnersAre (run cfg State.init acts) s k.node k.created :=
  exactly_one_of_inv (inv_run cfg acts) s hset hdis

/-- **C09 (a), repaired model**: announcing with `Created` makes the full statement true. -/
theorem C09_exactly_one_owner_fixed : C09_exactly_one_owner Cfg.fixed := by
  intro acts s hset hdist
  apply exactly_one_of_inv (inv_run Cfg.fixed acts) s hset
  intro k hk k' hk' hs hs' hne
  rw [fixed_stamp_eq_created acts k hk, fixed_stamp_eq_created acts k' hk']
  have := hdist k hk k' hk' hs hs' hne
  rcases Nat.lt_or_gt_of_ne this with h | h
  · exact Or.inl h
  · exact Or.inr h

/-- all four clock reads return the same value (no tick in between) -/
def witnessEqual : List Act := join01 ++
  [.tick, .add 0 1, .add 1 1, .announce 0 1, .announce 1 1,
   .deliver (.ann .register 0 1 1 1) false, .deliver (.ann .register 1 1 1 0) false]

/-- the other excluded point: equal stamps evict nobody (`Before` is strict); there is no unique
    newest claim, so the property's wording does not cover it. -/
theorem C09_equal_stamps_keep_both :
    Settled (run Cfg.asIs State.init witnessEqual) 1 ∧ ¬ DistinctCreated (run Cfg.asIs State.init witnessEqual) 1 ∧
    Holds (run Cfg.asIs State.init witnessEqual) 0 1 1 ∧ Holds (run Cfg.asIs State.init witnessEqual) 1 1 1 := by
  unfold Holds; decide

/-- node 0 registers, then node 1 after node 0's announcement: disjoint windows -/
def witnessSequential : List Act := join01 ++
  [.tick, .add 0 1, .tick, .announce 0 1, .tick, .add 1 1, .tick, .announce 1 1,
   .deliver (.ann .register 1 1 4 0) true, .deliver (.ann .register 0 1 2 1) false,
   .deliver (.ann .register 1 1 4 0) false, .deliver (.ann .unregister 0 1 4 1) false]

/-- non-vacuity: the hypotheses of the partial theorem are met by a run with two claims, a duplicated
    and a delayed delivery, and exactly the newest claimant (node 1, Created 3) remains. -/
example : Settled (run Cfg.asIs State.init witnessSequential) 1 ∧ DisjointWindows (run Cfg.asIs State.init witnessSequential) 1 ∧
    EmittedDelivered (run Cfg.asIs State.init witnessSequential) ∧ RegistersDelivered (run Cfg.asIs State.init witnessSequential) ∧
    Holds (run Cfg.asIs State.init witnessSequential) 1 1 3 ∧ aget ((run Cfg.asIs State.init witnessSequential).node 0).locals 1 = none := by
  unfold Holds; decide

/-- the overlap run on the repaired model: node 1 (the newest claim) keeps the shard -/
example : Settled (run Cfg.fixed State.init (join01 ++
    [.tick, .add 0 1, .tick, .add 1 1, .tick, .announce 1 1, .tick, .announce 0 1,
     .deliver (.ann .register 1 1 2 0) false, .deliver (.ann .register 0 1 1 1) false])) 1 ∧
    Holds (run Cfg.fixed State.init (join01 ++
    [.tick, .add 0 1, .tick, .add 1 1, .tick, .announce 1 1, .tick, .announce 0 1,
     .deliver (.ann .register 1 1 2 0) false, .deliver (.ann .register 0 1 1 1) false])) 1 1 2 := by
  unfold Holds; decide

/-! ## (b) leave -/

/-- **C09 (b)**: after `m` has processed the leave of `n`, `n` is absent from `m`'s `remoteNodeStates`
    and stays absent along every schedule that merges no snapshot of `n` into `m`. -/
theorem C09_leave_removes_until_merge (cfg : Cfg) (σ : State) (m n : NodeId) (acts : List Act)
    (hno : NoMergeFrom n m acts) :
    aget ((run cfg (step cfg σ (.leave m n)) acts).node m).remote n = none :=
  absent_until_merge cfg _ n m acts (leave_removes cfg σ m n) (noMergeFrom_conv hno)

/-- "instances that left own nothing" at full strength: whatever happened before, once `m` has
    processed the leave of `n` and `n` itself does nothing any more, `m` never lists `n` again -/
def C09_departed_own_nothing (cfg : Cfg) : Prop :=
  ∀ (pre post : List Act) (n m : NodeId), n ≠ m → Silent n post →
    aget ((run cfg State.init (pre ++ .leave m n :: post)).node m).remote n = none

/-- node 0 owns shard 1; its full state is in flight to node 1 when it leaves -/
def witnessStale : List Act :=
  [.tick, .add 0 1, .tick, .announce 0 1, .snapSend 0 1, .leave 1 0, .deliver (.snap 0 [(1, 1)] 1) false]

theorem C09_stale_merge_resurrects_departed :
    aget ((run Cfg.asIs State.init witnessStale).node 1).remote 0 = some [(1, 1)] ∧
    shardOwners ((run Cfg.asIs State.init witnessStale).node 1) 1 1 = [0] := by decide

theorem C09_departed_refuted : ¬ C09_departed_own_nothing Cfg.asIs := by
  intro h
  have := h [.tick, .add 0 1, .tick, .announce 0 1, .snapSend 0 1] [.deliver (.snap 0 [(1, 1)] 1) false] 0 1 (by decide)
    (by decide)
  have h2 := C09_stale_merge_resurrects_departed.1
  simp only [witnessStale] at h2
  simp only [List.cons_append, List.nil_append] at this
  rw [h2] at this
  cases this

/-- **C09 (b), partial**: if no snapshot of the departed node is still in flight towards `m` when `m`
    processes the leave (the property's "each … reaches every other instance": nothing of `n` is
    delayed past its departure), `n` never reappears. -/
theorem C09_departed_own_nothing_partial (cfg : Cfg) (pre post : List Act) (n m : NodeId)
    (hnet : NoSnapInFlight (run cfg State.init pre) n m) (hsil : Silent n post) :
    aget ((run cfg State.init (pre ++ .leave m n :: post)).node m).remote n = none := by
  rw [run_append, run_cons]
  apply departed_stays_absent cfg _ n m post (leave_removes cfg _ m n) _ (silent_conv hsil)
  exact step_no_snap cfg _ (.leave m n) n m (noSnap_conv hnet) (by intro h; cases h)

/-- non-vacuity of (b): node 0 owned shard 1, node 1 had merged its state (so it listed node 0 as the owner),
    the snapshot in flight arrived BEFORE the leave; afterwards node 1 never lists node 0 again. -/
example : NoSnapInFlight (run Cfg.asIs State.init [.tick, .add 0 1, .tick, .announce 0 1, .snapSend 0 1, .deliver (.snap 0 [(1, 1)] 1) false]) 0 1 ∧
    shardOwners ((run Cfg.asIs State.init [.tick, .add 0 1, .tick, .announce 0 1, .snapSend 0 1, .deliver (.snap 0 [(1, 1)] 1) false]).node 1) 1 1 = [0] ∧
    Silent 0 [.tick, .add 1 1, .snapshot 1 0] := by decide

/-! ## (c) routing clause -/

/-- the owner lookup never names the node itself -/
theorem C09_owner_is_another_node (x : Node) (self : NodeId) (s : ShardId) : self ∉ shardOwners x self s :=
  owner_never_self x self s

/-- **C09 (c)** messages: the result is `true` iff the message was handed to exactly one of the local
    stream / the remote owner; it is never handed to both; `false` means nobody got it. -/
theorem C09_msg_true_iff_exactly_one (i : RouteIn) :
    ((deliverMsg i).result = true ↔ ((deliverMsg i).toLocal ≠ (deliverMsg i).toRemote)) ∧
    ¬ ((deliverMsg i).toLocal = true ∧ (deliverMsg i).toRemote = true) ∧
    ((deliverMsg i).result = false → (deliverMsg i).toLocal = false ∧ (deliverMsg i).toRemote = false) ∧
    (deliverMsg i).panicked = false := by
  unfold deliverMsg localAttempt
  rcases i with ⟨lc, sh, ml, mg, ok, os, ad, fw, al⟩
  rcases lc with _ | _ | _ | _ <;> cases sh <;> cases ml <;> cases mg <;> cases ok <;> cases os <;> cases ad <;> cases fw <;> cases al <;> decide

/-- **C09 (c)** messages: local stream first. -/
theorem C09_msg_local_first (i : RouteIn) (h : i.localChan = some .sent) : deliverMsg i = .atLocal := by
  simp [deliverMsg, localAttempt, h]

/-- **C09 (c)** messages: otherwise the known remote owner. -/
theorem C09_msg_else_remote_owner (i : RouteIn) (hl : i.localChan = none ∨ (i.localChan ≠ some .sent ∧ i.isShutdown = false))
    (hm : i.memberlist = true) (hg : i.mgrPresent = true) (ho : i.ownerKnown = true) (hs : i.ownerIsSelf = false)
    (ha : i.addrKnown = true) : deliverMsg i = if i.fwdOk then .atRemote else .undelivered := by
  rcases i with ⟨lc, sh, ml, mg, ok, os, ad, fw, al⟩
  simp only at hl hm hg ho hs ha
  subst hm hg ho hs ha
  rcases lc with _ | _ | _ | _ <;> cases sh <;> cases fw <;> simp_all [deliverMsg, localAttempt]

/-- **C09 (c)** messages: neither a local stream nor a known remote owner ⇒ reported undelivered. -/
theorem C09_msg_neither_is_reported (i : RouteIn) (hl : i.localChan = none)
    (ho : i.memberlist = false ∨ i.ownerKnown = false ∨ i.ownerIsSelf = true ∨ i.addrKnown = false) :
    deliverMsg i = .undelivered := by
  rcases i with ⟨lc, sh, ml, mg, ok, os, ad, fw, al⟩
  simp only at hl ho
  subst hl
  rcases ho with h | h | h | h <;> subst h <;> simp [deliverMsg, localAttempt]

/-- **C09 (c)** acknowledgements: same statement (in routing mode the intra-proxy manager exists). -/
theorem C09_ack_true_iff_exactly_one (i : RouteIn) (hmgr : i.memberlist = true → i.mgrPresent = true) :
    ((deliverAck i).result = true ↔ ((deliverAck i).toLocal ≠ (deliverAck i).toRemote)) ∧
    ¬ ((deliverAck i).toLocal = true ∧ (deliverAck i).toRemote = true) ∧
    ((deliverAck i).result = false → (deliverAck i).toLocal = false ∧ (deliverAck i).toRemote = false) ∧
    (deliverAck i).panicked = false := by
  unfold deliverAck localAttempt
  rcases i with ⟨lc, sh, ml, mg, ok, os, ad, fw, al⟩
  simp only at hmgr
  rcases lc with _ | _ | _ | _ <;> cases sh <;> cases ml <;> cases mg <;> cases ok <;> cases os <;> cases ad <;> cases fw <;> cases al <;>
    first | decide | (exact absurd (hmgr rfl) (by decide))

theorem C09_ack_local_first (i : RouteIn) (h : i.localChan = some .sent) : deliverAck i = .atLocal := by
  simp [deliverAck, localAttempt, h]

theorem C09_ack_else_remote_owner (i : RouteIn) (hl : i.localChan = none ∨ (i.localChan ≠ some .sent ∧ i.isShutdown = false))
    (hf : i.allowForward = true) (hm : i.memberlist = true) (hg : i.mgrPresent = true) (ho : i.ownerKnown = true)
    (hs : i.ownerIsSelf = false) (ha : i.addrKnown = true) :
    deliverAck i = if i.fwdOk then .atRemote else .undelivered := by
  rcases i with ⟨lc, sh, ml, mg, ok, os, ad, fw, al⟩
  simp only at hl hf hm hg ho hs ha
  subst hf hm hg ho hs ha
  rcases lc with _ | _ | _ | _ <;> cases sh <;> cases fw <;> simp_all [deliverAck, localAttempt]

theorem C09_ack_neither_is_reported (i : RouteIn) (hl : i.localChan = none)
    (ho : i.allowForward = false ∨ i.memberlist = false ∨ i.ownerKnown = false ∨ i.ownerIsSelf = true ∨ i.addrKnown = false) :
    deliverAck i = .undelivered := by
  rcases i with ⟨lc, sh, ml, mg, ok, os, ad, fw, al⟩
  simp only at hl ho
  subst hl
  rcases ho with h | h | h | h | h <;> subst h <;> simp [deliverAck, localAttempt]

/-! ## (d) ReconcilePeerStreams -/

/-- desired receivers are exactly the cross-cluster (local target, remote source) pairs -/
theorem C09_desired_receivers (locals : List CShard) (remote : List (NodeId × List CShard)) (k : PKey) :
    k ∈ desiredReceivers locals remote ↔
      k.target ∈ locals ∧ (∃ e ∈ remote, k.source ∈ e.2) ∧ k.target.cluster ≠ k.source.cluster :=
  mem_desiredReceivers

/-- desired senders are the inverse pairs -/
theorem C09_desired_senders_inverse (locals : List CShard) (remote : List (NodeId × List CShard)) :
    desiredSenders locals remote = (desiredReceivers locals remote).map PKey.swap :=
  desiredSenders_eq locals remote

/-- nothing outside the desired sets survives a reconcile -/
theorem C09_reconcile_prunes_everything_else (dR dS receivers senders : List PKey) :
    (∀ k ∈ (prune dR dS receivers senders).1, k ∈ receivers ∧ k ∈ dR) ∧
    (∀ k ∈ (prune dR dS receivers senders).2, k ∈ senders ∧ k ∈ dS) :=
  prune_within dR dS receivers senders

end S2S.Gossip
