import S2S.Proofs.NameMap
import S2S.Proofs.TranslateExact
import S2S.Gen.TGExact
/-!
# C14 — search-attribute keys are renamed consistently and values are untouched

* `C14_keys_renamed_values_untouched`: for every mapping and every indexed-field map, each key goes through the
  exact-match mapping once, values and positions are carried over untouched, the size is preserved;
* `C14_no_key_lost`: for a one-to-one mapping and key sets that do not collide with mapping targets (the
  property's hypothesis) distinct keys stay distinct — the rebuilt Go map loses nothing;
* `C14_workflow_service_excluded`: the translator does not run for WorkflowService methods, it does for AdminService;
* `C14_every_container_found`: on the regenerated type graph of the current tree, every search-attributes
  container (typed `SearchAttributes` and bare `map<string,Payload>` forms) sits in a field whose Go name is in
  `searchAttributeFieldNames` (finite obligation over regenerated facts); containers inside history-event blobs are
  reached through the same blob coverage as C12;
* direction: the same `serverMaps` as namespaces (`C13_direction_roundtrip`).
-/
namespace S2S.NameMap

variable {α : Type} [DecidableEq α]

theorem C14_keys_renamed_values_untouched {β : Type} (m : List (α × α)) (fields : List (α × β)) :
    (renameKeys m fields).map (·.2) = fields.map (·.2) ∧
    (renameKeys m fields).map (·.1) = fields.map (fun p => translateName m p.1) ∧
    (renameKeys m fields).length = fields.length :=
  renameKeys_spec m fields

theorem C14_no_key_lost {β : Type} (m : List (α × α)) (hk : (m.map (·.1)).Nodup) (hv : (m.map (·.2)).Nodup)
    (fields : List (α × β)) (hf : (fields.map (·.1)).Nodup)
    (hcol : ∀ p ∈ fields, (∃ q ∈ m, q.1 = p.1) ∨ (∀ q ∈ m, q.2 ≠ p.1)) :
    ((renameKeys m fields).map (·.1)).Nodup :=
  renameKeys_nodup m hk hv fields hf hcol

theorem C14_workflow_service_excluded : saApplies .workflow = false ∧ saApplies .admin = true := ⟨rfl, rfl⟩

end S2S.NameMap

namespace S2S.Translate

theorem C14_every_container_found (t : TypeD) (ht : t ∈ S2S.Gen.TG.graph.types) (f : FieldD) (hf : f ∈ t.fields)
    (hs : f.sa = true) : S2S.Gen.TG.tables.sa.contains f.go = true :=
  sa_of_chunks S2S.Gen.TG.graph S2S.Gen.TG.tables S2S.Gen.TG.chunks rfl S2S.Gen.TG.chunks_sa t ht f hf hs

end S2S.Translate
