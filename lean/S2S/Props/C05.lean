import S2S.Proofs.Ring
/-!
# C05 — the proxy-id table maps acknowledgements back to original ids exactly

Property theorems only (helper lemmas live in `S2S/Proofs/Ring.lean`).

`Ref` is the plain reference the property statement talks about: the list of *outstanding*
`(proxy id, mapping)` pairs — appended and not yet discarded — computed from the **history of
operations alone**, never from the ring's state.  The theorems say that for every capacity and
every history satisfying the property's hypotheses (`Good`: proxy ids strictly increasing —
contiguous or gapped — and real shards `≠ (0,0)`), `AggregateUpTo w` on the ring returns, for
each source shard, the maximum original id among outstanding entries with proxy id `≤ w`,
nothing for other shards, each shard once, and `count` = the number of outstanding slots `≤ w`.
-/
namespace S2S.Ring

/-- structural invariant of the ring, for every capacity and every history (no hypotheses) -/
theorem C05_wf (c : Int) (ops : List Op) : ((new c).run true ops).WF :=
  run_wf c ops

/-- **C05**: aggregation is exact w.r.t. the history-defined outstanding set. -/
theorem C05_aggregate_exact (c : Int) (ops : List Op) (hg : Good {} ops) (w : Int)
    (hno : NoOverflow (Ref.run ops) w) (k : Key) :
    ((((new c).run true ops).aggregate w).1.lookup k) = (Ref.run ops).expected w k :=
  aggregate_exact c ops hg w hno k

/-- each shard appears at most once in the returned map -/
theorem C05_aggregate_nodup (c : Int) (ops : List Op) (w : Int) :
    ((((new c).run true ops).aggregate w).1.map (·.1)).Nodup :=
  aggregate_nodup c ops w

/-- the count handed to `Discard` is exactly the number of outstanding slots `≤ w` -/
theorem C05_aggregate_count (c : Int) (ops : List Op) (hg : Good {} ops) (w : Int)
    (hno : NoOverflow (Ref.run ops) w) :
    (((new c).run true ops).aggregate w).2 = (Ref.run ops).expectedCount w :=
  aggregate_count c ops hg w hno

/-- entries are neither lost, duplicated nor reordered by growth, wrap-around or discarding:
    the non-hole logical contents of the ring, tagged with their slot ids, are exactly the
    outstanding list of the history. -/
theorem C05_contents_exact (c : Int) (ops : List Op) (hg : Good {} ops) :
    ((new c).run true ops).pairs = (Ref.run ops).out :=
  contents_exact c ops hg

/-- the pinned tree's `Append` (no `ensureCapacity` before the final write) violated the property:
    capacity 1, append ids 1, 2, 5 — the oldest entry is overwritten.  (Fixed finding.) -/
theorem C05_refuted_without_final_ensure :
    let ops := [Op.append 1 ⟨1,1,10⟩, .append 2 ⟨1,1,11⟩, .append 5 ⟨1,1,12⟩]
    (((new 1).run false ops).aggregate 3).1.lookup (1,1) = some 12 ∧
    (Ref.run ops).expected 3 (1,1) = some 11 := by decide

/-- non-vacuity: a gapped, multi-shard, wrapped and grown history meets the hypotheses -/
example :
    let ops := [Op.append 1 ⟨1,1,10⟩, .append 2 ⟨1,2,11⟩, .discard 1, .append 5 ⟨1,1,12⟩, .append 6 ⟨2,1,7⟩]
    Good {} ops ∧ NoOverflow (Ref.run ops) 5 ∧
    (((new 2).run true ops).aggregate 5).1.lookup (1,1) = some 12 := by decide

end S2S.Ring
