import S2S.Model.NameMap
import S2S.Model.Acl
import S2S.Proofs.TranslateCover
import Driver.Translate
/- Driver for engine "namemap" (C13, C14). -/
namespace Drv.NameMap
open S2S.NameMap

def decName (s : String) : String := if s = "-" then "" else s
def encName (s : String) : String := if s = "" then "-" else s

/-- `a:b,c:d` or `-` -/
def parseMap (s : String) : Option (List (String × String)) :=
  if s = "-" then some []
  else (s.splitOn ",").mapM fun kv =>
    match kv.splitOn ":" with
    | [k, v] => some (decName k, decName v)
    | _ => none

def insertSorted (x : String) : List String → List String
  | [] => [x]
  | y :: ys => if x < y then x :: y :: ys else y :: insertSorted x ys

def sortStrings (l : List String) : List String := l.foldl (fun acc x => insertSorted x acc) []

def step (line : String) : String :=
  match Drv.words line with
  | ["bimap", m] => match parseMap m with
    | some pairs => if (newBiMap pairs).isSome then "ok" else "conflict"
    | none => "bad-op"
  | ["startup", m] => match parseMap m with
    | some pairs => if configAccepts "" pairs then "ok" else "rejected"
    | none => "bad-op"
  | ["tr", m, n] => match parseMap m with
    | some pairs => encName (translateName pairs (decName n))
    | none => "bad-op"
  | ["rt", m, n] => match parseMap m with
    | some pairs => encName (translateName (inverse pairs) (translateName pairs (decName n)))
    | none => "bad-op"
  | ["dir", inb, m, n, which] => match parseMap m with
    | some pairs =>
      let maps := serverMaps (inb == "1") pairs
      encName (translateName (if which == "req" then maps.1 else maps.2) (decName n))
    | none => "bad-op"
  | ["keys", m, ks] => match parseMap m with
    | some pairs =>
      let fields : List (String × Unit) := ((ks.splitOn ",").filter (· ≠ "")).map (·, ())
      Drv.joinWith "," (sortStrings ((renameKeys pairs fields).map (·.1)))
    | none => "bad-op"
  | ["saapplies", full] =>
    let svc : Svc := match S2S.Acl.serviceOf full with
      | .workflow => .workflow | .admin => .admin | .other => .other
    toString (saApplies svc)
  | "sapath" :: rest =>
    match Drv.Translate.parsePath rest with
    | some (_, p) =>
      let g := S2S.Gen.TG.graph
      let tb := S2S.Gen.TG.tables
      let leafOK := match g.field? p.leafTy p.leafIdx with
        | some f => f.sa && tb.sa.contains f.go
        | none => false
      if S2S.Translate.walk g { tb with skipAttr := [] } p.steps false && leafOK then "found" else "missed"
    | none => "bad-op"
  | "valns" :: _ => Drv.TranslateVal.step line   -- value-level ops (Driver/TranslateVal.lean)
  | "valsa" :: _ => Drv.TranslateVal.step line
  | _ => "bad-op"

end Drv.NameMap
