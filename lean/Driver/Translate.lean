import S2S.Model.Translate
import S2S.Gen.TGBase
import Driver.Util
import Driver.TranslateVal
/- Driver for engine "translate" (C12, C16): the path-level visitor model over the REGENERATED type graph. -/
namespace Drv.Translate
open S2S.Translate

def nats (s : String) : Option (List Nat) := (s.splitOn ".").mapM String.toNat?

/-- `r<root> f<ty>.<pos>.<next> b<ty>.<pos> … l<ty>.<pos>` -/
def parsePath (ws : List String) : Option (Nat × Path) :=
  match ws with
  | r :: rest =>
    if !r.startsWith "r" then none else
    match (r.drop 1).toString.toNat? with
    | none => none
    | some root =>
      let rec go (ws : List String) (acc : List Step) : Option Path :=
        match ws with
        | [] => none
        | w :: more =>
          if w.startsWith "f" then
            match nats (w.drop 1).toString with
            | some [a, b, c] => go more (acc ++ [.field a b c])
            | _ => none
          else if w.startsWith "b" then
            match nats (w.drop 1).toString with
            | some [a, b] => go more (acc ++ [.blob a b])
            | _ => none
          else if w.startsWith "l" then
            match nats (w.drop 1).toString, more with
            | some [a, b], [] => some ⟨acc, a, b⟩
            | _, _ => none
          else none
      (go rest []).map (root, ·)
  | [] => none

def step (line : String) : String :=
  match Drv.words line with
  | "path" :: rest =>
    match parsePath rest with
    | some (_, p) => if translates S2S.Gen.TG.graph S2S.Gen.TG.tables p then "translated" else "missed"
    | none => "bad-op"
  | "valns" :: _ => Drv.TranslateVal.step line   -- value-level ops (Driver/TranslateVal.lean)
  | "valsa" :: _ => Drv.TranslateVal.step line
  | _ => "bad-op"

end Drv.Translate
