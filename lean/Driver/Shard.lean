import S2S.Model.Shard
import S2S.Model.Observer
import Driver.Util
/- Drivers for engines "shard" (C07) and "observer" (C20). -/
namespace Drv.Shard
open S2S.Shard

def ints (ws : List String) : Option (List Int) := ws.mapM String.toInt?

def step (line : String) : String :=
  match Drv.words line with
  | "gcd" :: rest => match ints rest with
    | some [a, b] => toString (gcd32 a b)
    | _ => "bad-op"
  | "lcm" :: rest => match ints rest with
    | some [a, b] => toString (lcm32 a b)
    | _ => "bad-op"
  | "map" :: rest => match ints rest with
    | some [s, t, i] => match mapShardIDUnique s t i with
      | some x => s!"ok {x}"
      | none => "panic"
    | _ => "bad-op"
  | "e2edesc" :: rest => match ints rest with
    | some [l, r, inv, bypass, backend] =>
      let p := lcmParams .lcm l r (inv == 1)
      toString (describeShardCount .lcm p 0 (bypass == 1) backend)
    | _ => "bad-op"
  | "e2estream" :: rest => match ints rest with
    | some [l, r, inv, cc, cs, sc, ss] =>
      let p := lcmParams .lcm l r (inv == 1)
      match lcmForward p ⟨cc, cs, sc, ss⟩ with
      | some m => s!"md {m.clientCluster} {m.clientShard} {m.serverCluster} {m.serverShard}"
      | none => "panic"
    | _ => "bad-op"
  | _ => "bad-op"

end Drv.Shard

namespace Drv.Observer
open S2S.Observer S2S.Shard

def showCounters (o : Obs) : String :=
  "[" ++ String.join (o.counters.map fun (i, _) => s!"{i},") ++ "]"

def showResult : OpenResult → String
  | .rejectedMissing => "rejected missing"
  | .rejectedMalformed => "rejected malformed"
  | .rejectedPanic => "rejected panic"
  | .served => "served"
  | .wedged => "wedged"

def modeOf : String → Option (Mode × LCMParams)
  | "default" => some (.default, ⟨0, 0⟩)
  | "routing" => some (.routing, ⟨0, 0⟩)
  | s =>
    -- "lcm:<L>:<target>"
    match s.splitOn ":" with
    | ["lcm", l, t] => match l.toInt?, t.toInt? with
      | some l, some t => some (.lcm, ⟨l, t⟩)
      | _, _ => none
    | _ => none

/-- `open <mode> <cc> <cs> <sc> <ss>`; the four values are raw header strings, `_` = absent/empty -/
def step (o : Obs) (line : String) : Obs × String :=
  match Drv.words line with
  | ["new"] => ({}, "ok")
  | ["open", mode, cc, cs, sc, ss] =>
    match modeOf mode with
    | none => (o, "bad-op")
    | some (m, p) =>
      let f := fun (s : String) => if s = "_" || s = "%e" then "" else s.replace "%20" " "
      let (o', r) := openStream report o m p (f cc) (f cs) (f sc) (f ss)
      let during := if r == .served then
          (match duringStream report o (f cc) (f cs) (f sc) (f ss) with
           | some d => showCounters d
           | none => "-")
        else "-"
      (o', s!"{showResult r} during={during} after={showCounters o'} len={o'.len}")
  -- overlapping streams: `hold <serverShard>` = a well-formed stream for that shard is opened and kept open (the +1 report),
  -- `release <serverShard>` = one of them ends (the −1 report); the observation is the active list and the counter length
  | ["hold", idx] =>
    match idx.toInt? with
    | some idx => (match report o idx 1 with
      | some (o', _) => (o', s!"{showCounters o'} len={o'.len}")
      | none => (o, "wedged"))
    | none => (o, "bad-op")
  | ["release", idx] =>
    match idx.toInt? with
    | some idx => (match report o idx (-1) with
      | some (o', _) => (o', s!"{showCounters o'} len={o'.len}")
      | none => (o, "wedged"))
    | none => (o, "bad-op")
  | ["report", idx, v] =>
    match idx.toInt?, v.toInt? with
    | some idx, some v =>
      match report o idx v with
      | some (o', .ok) => (o', s!"ok {showCounters o'} len={o'.len}")
      | some (o', .ignored) => (o', s!"ignored {showCounters o'} len={o'.len}")
      | some (o', .panicLocked) => (o', s!"panic {showCounters o'} len={o'.len}")
      | none => (o, "wedged")
    | _, _ => (o, "bad-op")
  | _ => (o, "bad-op")

end Drv.Observer
