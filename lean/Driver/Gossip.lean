import S2S.Model.Gossip
import Driver.Util
/-
Driver for engine "gossip" (C09).  One op line = one action of the fine-grained machine
(`S2S.Gossip.step`), so every driver run is literally a run of the machine the theorems of
Props/C09 quantify over; the routing / reconcile ops evaluate the decision functions directly.
-/
namespace Drv.Gossip
open S2S.Gossip

structure DSt where
  cfg : Cfg := {}
  σ : State := {}
  n : Nat := 0
  departed : List Nat := []

def showTable (t : Table) : String :=
  let l := t.mergeSort (fun a b => a.1 ≤ b.1)
  "[" ++ Drv.joinWith "," (l.map fun (s, c) => s!"{s}@{c}") ++ "]"

def showStreams (t : List (ShardId × Nat)) : String :=
  let l := t.mergeSort (fun a b => a.1 ≤ b.1)
  "[" ++ Drv.joinWith "," (l.map fun (s, c) => s!"{s}#{c}") ++ "]"

def showItem : Item → String
  | .ann .register src s t dst => s!"reg:{src}>{dst}:{s}@{t}"
  | .ann .unregister src s t dst => s!"unreg:{src}>{dst}:{s}@{t}"
  | .snap src tbl dst => s!"snap:{src}>{dst}:{showTable tbl}"

def live (d : DSt) : List Nat := (List.range d.n).filter fun k => !d.departed.contains k

def observe (d : DSt) : String :=
  let per (f : Node → String) := Drv.joinWith " " ((live d).map fun k => s!"n{k}:{f (d.σ.node k)}")
  let remote (x : Node) : String :=
    let l := x.remote.mergeSort (fun a b => a.1 ≤ b.1)
    "{" ++ Drv.joinWith "," (l.map fun (k, t) => s!"{k}:{showTable t}") ++ "}"
  let flight := (d.σ.net.map showItem).mergeSort (fun a b => a ≤ b)
  "L " ++ per (fun x => showTable x.locals) ++ " | R " ++ per remote ++ " | P " ++ per (fun x => showTable x.pending) ++
  " | S " ++ per (fun x => showStreams x.streams) ++ " | F " ++ Drv.joinWith "," flight ++ s!" | T {d.σ.clock}"

def act (d : DSt) (a : Act) : DSt × String :=
  let d' := { d with σ := step d.cfg d.σ a }
  (d', observe d')

/-- `7@1,8@3` or `-` -/
def parseTable (w : String) : Option Table :=
  if w = "-" then some []
  else (w.splitOn ",").mapM fun e =>
    match e.splitOn "@" with
    | [a, b] => match a.toNat?, b.toNat? with
      | some a, some b => some (a, b)
      | _, _ => none
    | _ => none

def b01 (w : String) : Option Bool := if w = "1" then some true else if w = "0" then some false else none

/-- `<local> <isShutdown> <memberlist> <mgr> <ownerKnown> <ownerSelf> <addr> <fwdOk> <allowForward>`;
    local is one of `none sent shutdown closed` -/
def parseRouteIn : List String → Option RouteIn
  | [lc, sh, ml, mg, ok, os, ad, fw, al] =>
    let lc? : Option (Option LocalSend) := match lc with
      | "none" => some none | "sent" => some (some .sent) | "shutdown" => some (some .shutdown)
      | "closed" => some (some .closedPanic) | _ => none
    match lc?, b01 sh, b01 ml, b01 mg, b01 ok, b01 os, b01 ad, b01 fw, b01 al with
    | some lc, some sh, some ml, some mg, some ok, some os, some ad, some fw, some al =>
      some ⟨lc, sh, ml, mg, ok, os, ad, fw, al⟩
    | _, _, _, _, _, _, _, _, _ => none
  | _ => none

def showOut (o : RouteOut) : String :=
  if o.panicked then "panic"
  else s!"{o.result} local={if o.toLocal then 1 else 0} remote={if o.toRemote then 1 else 0}"

/-- `c:s` -/
def parseCShard (w : String) : Option CShard :=
  match w.splitOn ":" with
  | [a, b] => match a.toNat?, b.toNat? with
    | some a, some b => some ⟨a, b⟩
    | _, _ => none
  | _ => none

def parseCShards (w : String) : Option (List CShard) :=
  if w = "-" then some [] else (w.splitOn ",").mapM parseCShard

/-- `t<-s` -/
def parsePKey (w : String) : Option PKey :=
  match w.splitOn "<-" with
  | [a, b] => match parseCShard a, parseCShard b with
    | some a, some b => some ⟨a, b⟩
    | _, _ => none
  | _ => none

def parsePKeys (w : String) : Option (List PKey) :=
  if w = "-" then some [] else (w.splitOn ",").mapM parsePKey

def showCShard (c : CShard) : String := s!"{c.cluster}:{c.shard}"
def showPKey (k : PKey) : String := s!"{showCShard k.target}<-{showCShard k.source}"
def dedupAdj : List String → List String
  | a :: b :: r => if a == b then dedupAdj (b :: r) else a :: dedupAdj (b :: r)
  | l => l

def showPKeys (l : List PKey) : String :=
  let s := dedupAdj ((l.map showPKey).mergeSort (fun a b => a ≤ b))
  if s.isEmpty then "-" else Drv.joinWith "," s

/-- `peer=shards` words -/
def parseRemote : List String → Option (List (NodeId × List CShard))
  | [] => some []
  | w :: rest =>
    match w.splitOn "=" with
    | [p, l] => match p.toNat?, parseCShards l, parseRemote rest with
      | some p, some l, some r => some ((p, l) :: r)
      | _, _, _ => none
    | _ => none

/-- groups of four words: peer id, receiver keys, sender keys, the peer's shards -/
def parsePeers : List String → Option (List (NodeId × List PKey × List PKey × List CShard))
  | [] => some []
  | p :: r :: s :: sh :: rest =>
    match p.toNat?, parsePKeys r, parsePKeys s, parseCShards sh, parsePeers rest with
    | some p, some r, some s, some sh, some tl => some ((p, r, s, sh) :: tl)
    | _, _, _, _, _ => none
  | _ => none

def dedupS : List String → List String
  | [] => []
  | a :: r => if r.contains a then dedupS r else a :: dedupS r

def step (d : DSt) (line : String) : DSt × String :=
  match Drv.words line with
  | "begin" :: n :: flags =>
    -- flags: `streams` (same machine; the engine makes the registrations through real replication streams),
    -- `asis` (the tree before the C09 repair: announcements stamped at broadcast time); default: the current tree
    match n.toNat? with
    | some n => if flags.all (fun f => f == "streams" || f == "asis" || f == "fixed")
                then ({ n := n, cfg := if flags.contains "asis" then Cfg.asIs else Cfg.fixed }, "ok") else (d, "bad-op")
    | none => (d, "bad-op")
  | ["tick"] => act d .tick
  | ["add", n, s] => match n.toNat?, s.toNat? with
    | some n, some s => act d (.add n s)
    | _, _ => (d, "bad-op")
  | ["announce", n, s] => match n.toNat?, s.toNat? with
    | some n, some s => act d (.announce n s)
    | _, _ => (d, "bad-op")
  | ["end", n, s, c, id] => match n.toNat?, s.toNat?, c.toNat?, id.toNat? with
    | some n, some s, some c, some id => act d (.streamEnd n s c id)
    | _, _, _, _ => (d, "bad-op")
  | "deliver" :: kind :: src :: dst :: s :: t :: rest =>
    let k? : Option Kind := if kind = "reg" then some .register else if kind = "unreg" then some .unregister else none
    match k?, src.toNat?, dst.toNat?, s.toNat?, t.toNat? with
    | some k, some src, some dst, some s, some t =>
      let it := Item.ann k src s t dst
      if it ∈ d.σ.net then act d (.deliver it (rest == ["dup"])) else (d, "not-in-flight")
    | _, _, _, _, _ => (d, "bad-op")
  | "dsnap" :: src :: dst :: tbl :: rest =>
    match src.toNat?, dst.toNat?, parseTable tbl with
    | some src, some dst, some tbl =>
      -- the in-flight copy is found up to the order of its entries
      match d.σ.net.find? (fun it => match it with
          | .snap a t b => a == src && b == dst && showTable t == showTable tbl
          | _ => false) with
      | some it => act d (.deliver it (rest == ["dup"]))
      | none => (d, "not-in-flight")
    | _, _, _ => (d, "bad-op")
  | ["snapshot", n, m] => match n.toNat?, m.toNat? with
    | some n, some m => act d (.snapshot n m)
    | _, _ => (d, "bad-op")
  | ["snapsend", n, m] => match n.toNat?, m.toNat? with
    | some n, some m => act d (.snapSend n m)
    | _, _ => (d, "bad-op")
  | ["nleave", m, n] => match m.toNat?, n.toNat? with
    | some m, some n => act d (.leave m n)
    | _, _ => (d, "bad-op")
  | ["depart", n] => match n.toNat? with
    | some n => let d' := { d with departed := n :: d.departed }; (d', observe d')
    | none => (d, "bad-op")
  | ["route", "msg", n, s] => match n.toNat?, s.toNat? with
    | some n, some s =>
      let x := d.σ.node n
      let owners := shardOwners x n s
      let i : RouteIn := ⟨if (aget x.streams s).isSome then some .sent else none, false, true, true,
        !owners.isEmpty, false, true, true, true⟩
      let o := deliverMsg i
      let who := if o.toLocal then "local" else if o.toRemote then
          (match owners with | [k] => s!"remote:{k}" | _ => "remote:any") else "none"
      (d, s!"route {o.result} {who}")
    | _, _ => (d, "bad-op")
  | "rmsg" :: rest => match parseRouteIn rest with
    | some i => (d, showOut (deliverMsg i))
    | none => (d, "bad-op")
  | "rack" :: rest => match parseRouteIn rest with
    | some i => (d, showOut (deliverAck i))
    | none => (d, "bad-op")
  | "reconcile" :: locals :: rest =>
    -- `reconcile <local shards> (<peer> <receiver keys before> <sender keys before> <peer's shards>)*`
    match parseCShards locals, parsePeers rest with
    | some ls, some ps =>
      let rem := ps.map fun (p, _, _, sh) => (p, sh)
      let pairs := crossPairs ls rem
      let dR := desiredReceivers ls rem
      let dS := desiredSenders ls rem
      let parts := ps.map fun (p, r0, s0, _) =>
        -- "ensure" phase: every desired receiver whose remote shard this peer lists exists afterwards
        let ensured := (pairs.filter fun q => q.1 == p).map fun q => (⟨q.2.1, q.2.2⟩ : PKey)
        let r1 := r0 ++ ensured.filter fun k => !r0.contains k
        let (r, s) := prune dR dS r1 s0
        s!"p{p} R={showPKeys r} S={showPKeys s}"
      (d, Drv.joinWith " | " parts)
    | _, _ => (d, "bad-op")
  | _ => (d, "bad-op")

end Drv.Gossip
