import S2S.Model.Ring
import Driver.Util
/- Driver for engine "ring" (C05). -/
namespace Drv.Ring
open S2S.Ring

def modP : Int := 1000000007

def checksum (items : List Entry) : Int :=
  let rec go (l : List Entry) (i : Int) (sum : Int) : Int :=
    match l with
    | [] => sum
    | e :: rest =>
      let v := ((e.cluster % modP) * 1000003 + (e.shard % modP) * 10007 + (e.task % modP)) % modP
      go rest (i + 1) ((sum + (i % modP) * v) % modP)
  go items 1 0

def view (b : Buf) : String :=
  let items := b.items
  let body := if b.size ≤ 24 then
      Drv.joinWith ";" (items.map fun e => s!"{e.cluster},{e.shard},{e.task}")
    else "-"
  s!"v {b.head} {b.size} {b.maxSize} {b.cap} {b.start} {checksum items} [{body}]"

def insertSorted (x : Key × Int) : List (Key × Int) → List (Key × Int)
  | [] => [x]
  | y :: ys => if x.1.1 < y.1.1 ∨ (x.1.1 = y.1.1 ∧ x.1.2 < y.1.2) then x :: y :: ys else y :: insertSorted x ys

def aggString (r : List (Key × Int) × Nat) : String :=
  let sorted := r.1.foldl (fun acc x => insertSorted x acc) []
  let parts := sorted.map fun (k, v) => s!" {k.1},{k.2}={v}"
  s!"a {r.2}" ++ String.join parts

/-- one protocol line -/
def step (st : Option Buf) (line : String) : Option Buf × String :=
  match Drv.words line, st with
  | ["new", c], _ =>
    match c.toInt? with
    | some c => let b := S2S.Ring.new c; (some b, view b)
    | none => (st, "bad-op")
  | ["app", p, cl, sh, t], some b =>
    match p.toInt?, cl.toInt?, sh.toInt?, t.toInt? with
    | some p, some cl, some sh, some t =>
      let b := b.append true p ⟨cl, sh, t⟩; (some b, view b)
    | _, _, _, _ => (st, "bad-op")
  | ["agg", w], some b =>
    match w.toInt? with
    | some w => (st, aggString (b.aggregate w))
    | none => (st, "bad-op")
  | ["dis", n], some b =>
    match n.toInt? with
    | some n => let b := b.discard n; (some b, view b)
    | none => (st, "bad-op")
  | _, _ => (st, "bad-op")

end Drv.Ring
