import S2S.Model.Forwarder
import S2S.Model.Shard
import Driver.Util
/-
Driver for engine "forwarder" (C06).  One harness op line = a burst of environment actions
(`src msg 3 ; ini eof`) applied atomically, followed by `settle`: internal actions run to a
fixpoint.  `settle` only ever applies `Forwarder.step`, so every big-step run is a fine-step run
and the theorems of Props/C06 apply to it.

Scheduling nondeterminism (Go's `select` between the data channel and the latch, and the
relative speed of the two directions) is resolved by the hint `~ k j` on the op line: the number
of messages the real code relayed to the initiator / to the source during this op.  The hint
only orders ENABLED actions (a direction that still owes messages goes first, otherwise latch
and clean-up actions go first); it can never make the model relay a message it could not relay,
nor stop a direction that nothing stops — a real divergence still shows up as a different line.

Events of a burst (`parseEvent`): `src msg n | src eof | src err | src unknown | ini ack n | ini eof |
ini err | ini unknown | ini cancel | srcsendfail | inisendfail | shutdown | tick`, and the flow-control
events `stall s | stall i | unstall s | unstall i` (`Act.stall d` / `Act.unstall d`: the peer that
direction `d`'s loop sends to stops / resumes reading; `s` = the initiator, `i` = the source).
While a loop is blocked in `Send` the observation line simply shows nothing new for that direction
and the goroutines stay alive.
-/
namespace Drv.Forwarder
open S2S.Forwarder

structure DSt where
  σ       : State := {}
  opened  : Bool := false
  failed  : Bool := false      -- `begin … openfail`: the client stream could not be opened
  seenI   : Nat := 0           -- messages to the initiator already reported
  seenS   : Nat := 0           -- messages to the source already reported

/-- the listener goroutine keeps running after the unbuffered hand-off (the relay loop is only made runnable): its loop
    condition is evaluated before the relay loop has processed the value — visible when the loop then ends or blocks -/
def dataPath (d : D) : List Act := [.lCheck d, .rProc d, .lHand d, .lRecv d]

def cleanup : List Act :=
  [.rDefer .s, .rDefer .i, .rLatch .s, .rLatch .i, .rClosed .s, .rClosed .i, .lQuit .s, .lQuit .i,
   .csReturn, .guardRecv, .hCancel, .hReturn]

/-- would the next thing direction `d` handles be relayed (a message whose `Send` succeeds), as
    opposed to ending the direction (EOF / error / unknown kind / a message whose `Send` fails) -/
def nextRelays (σ : State) (d : D) : Bool :=
  let x := σ.dir d
  let ok := fun (v : Ev) => v.isData && sendOk σ d && !cut σ d
  match x.loop with
  | .holding v => v.isData && sendOk σ d
  | _ => match x.lis with
    | .has v => v.isData && sendOk σ d
    | _ => match x.queue with
      | v :: _ => ok v
      | [] => !cut σ d

def candidates (σ : State) (ts ti : Nat) : List Act :=
  let needS := σ.s.out.length < ts
  let needI := σ.i.out.length < ti
  let first := (if needS then dataPath .s else []) ++ (if needI then dataPath .i else [])
  let restS := if needS then [] else dataPath .s
  let restI := if needI then [] else dataPath .i
  let rest := if nextRelays σ .s && !nextRelays σ .i then restI ++ restS else restS ++ restI
  first ++ cleanup ++ rest

def firstEnabled (σ : State) : List Act → Option State
  | [] => none
  | a :: rest => match step σ a with
    | some σ' => some σ'
    | none => firstEnabled σ rest

def settle (ts ti : Nat) : Nat → State → State
  | 0, σ => σ
  | fuel + 1, σ => match firstEnabled σ (candidates σ ts ti) with
    | some σ' => settle ts ti fuel σ'
    | none => σ

def fuel : Nat := 100000

def showB (b : Bool) : String := if b then "true" else "false"

def aliveRoles (σ : State) : String :=
  let r := (if σ.h != .returned then ["H"] else []) ++
           (if σ.i.loop != .done then ["FA"] else []) ++
           (if σ.s.loop != .done then ["FR"] else []) ++
           (if σ.s.lis != .exited then ["LS"] else []) ++
           (if σ.i.lis != .exited then ["LT"] else []) ++
           (if σ.cs == .calling || σ.cs == .signalling then ["CS"] else [])
  if r.isEmpty then "-" else Drv.joinWith "," r

def observe (d : DSt) : DSt × String :=
  let newI := d.σ.s.out.drop d.seenI
  let newS := d.σ.i.out.drop d.seenS
  let line := "I=[" ++ Drv.joinWith "," (newI.map toString) ++ "] S=[" ++ Drv.joinWith "," (newS.map toString) ++ "]" ++
    s!" closeSend={showB (d.σ.cs != .idle)} ctx={showB (d.σ.outCtx || d.σ.srvCtx)} ret={showB (d.σ.h == .returned)} alive={aliveRoles d.σ}"
  ({ d with seenI := d.σ.s.out.length, seenS := d.σ.i.out.length }, line)

/-- one event of a burst -/
def parseEvent : List String → Option Act
  | ["src", "msg", n] => n.toNat?.map fun n => .push .s (.data n)
  | ["src", "eof"] => some (.push .s .eof)
  | ["src", "err"] => some (.push .s .err)
  | ["src", "unknown"] => some (.push .s .unknown)
  | ["ini", "ack", n] => n.toNat?.map fun n => .push .i (.data n)
  | ["ini", "eof"] => some (.push .i .eof)
  | ["ini", "err"] => some (.push .i .err)
  | ["ini", "unknown"] => some (.push .i .unknown)
  | ["ini", "cancel"] => some .iniCancel
  | ["srcsendfail"] => some (.sendFail .i)      -- the source's stream no longer accepts Send: direction i's loop fails
  | ["inisendfail"] => some (.sendFail .s)
  -- the peer that direction `d`'s relay loop SENDS to stops / resumes reading (gRPC flow control: `Send` blocks):
  -- `stall s` = the initiator does not read (blocks `forwardReplicationMessages`), `stall i` = the source does not read
  | ["stall", "s"] => some (.stall .s)
  | ["stall", "i"] => some (.stall .i)
  | ["unstall", "s"] => some (.unstall .s)
  | ["unstall", "i"] => some (.unstall .i)
  | ["shutdown"] => some .shutdown
  | ["tick"] => some .tick
  | _ => none

/-- split a word list on ";" -/
def splitEvents : List String → List String → List (List String)
  | [], cur => [cur.reverse]
  | w :: rest, cur => if w == ";" then cur.reverse :: splitEvents rest [] else splitEvents rest (w :: cur)

def parseEnv : List String → Env → Option Env
  | [], e => some e
  | "answers" :: r, e => parseEnv r { e with answersCloseSend := true }
  | "ignores" :: r, e => parseEnv r { e with answersCloseSend := false }
  | "hang" :: r, e => parseEnv r { e with closeSendHangs := true }
  | "noe1" :: r, e => parseEnv r { e with cancelUnblocksRecv := false }
  | "noe2" :: r, e => parseEnv r { e with returnCancelsSrv := false }
  | "noclose" :: r, e => parseEnv r { e with shutdownClosesConn := false }
  | "openfail" :: r, e => parseEnv r e
  | _, _ => none

/-- metadata of the stream the proxy opens (`handleStream`: unchanged in default mode, C07's rewrite in LCM mode) -/
def openMD (mode : String) (cc cs sc ss : Int) : Option String :=
  let sh := fun (m : S2S.Shard.StreamMD) => s!"{m.clientCluster}/{m.clientShard}/{m.serverCluster}/{m.serverShard}"
  if mode == "default" then some (sh ⟨cc, cs, sc, ss⟩)
  else match mode.splitOn ":" with
    | ["lcm", l, t] => match l.toInt?, t.toInt? with
      | some l, some t => match S2S.Shard.lcmForward ⟨l, t⟩ ⟨cc, cs, sc, ss⟩ with
        | some m => some (sh m)
        | none => some "panic"
      | _, _ => none
    | _ => none

/-- `e2e <ending> <answers|ignores>`: two messages relayed each way, then the ending, then settle -/
def e2e (ending : String) (answers : Bool) : Option String :=
  let act : Option Act := match ending with
    | "src_eof" => some (.push .s .eof)
    | "src_err" => some (.push .s .err)
    | "src_unknown" => some (.push .s .unknown)
    | "ini_eof" => some (.push .i .eof)
    | "ini_unknown" => some (.push .i .unknown)
    | "ini_cancel" => some .iniCancel
    | "shutdown" => some .shutdown
    | _ => none
  act.map fun a =>
    let go := fun (σ : State) (a : Act) => settle 1000 1000 fuel ((S2S.Forwarder.step σ a).getD σ)
    let σ := settle 0 0 fuel (State.init { answersCloseSend := answers })
    let σ := [Act.push .s (.data 1), .push .i (.data 1), .push .s (.data 2), .push .i (.data 2), a].foldl go σ
    let sh := fun (l : List Nat) => Drv.joinWith "," (l.map toString)
    -- the initiator's stream ends when the handler returns; the source's when it ended itself or its context is cancelled
    s!"I=[{sh σ.s.out}] S=[{sh σ.i.out}] iniEnded={showB (σ.h == .returned)} srcEnded={showB (σ.outCtx || σ.srvCtx || σ.connClosed)} alive={aliveRoles σ}"

def step (d : DSt) (line : String) : DSt × String :=
  let ws := Drv.words line
  let opWords := ws.takeWhile (· != "~")
  let hint := (ws.dropWhile (· != "~")).drop 1
  match opWords with
  | "begin" :: mode :: cc :: cs :: sc :: ss :: envw =>
    match cc.toInt?, cs.toInt?, sc.toInt?, ss.toInt?, parseEnv envw {} with
    | some cc, some cs, some sc, some ss, some e =>
      match openMD mode cc cs sc ss with
      | none => (d, "bad-op")
      | some md =>
        if envw.contains "openfail" then
          ({ failed := true }, s!"openfail md={md} ret=true alive=-")
        else
          let σ := settle 0 0 fuel (State.init e)
          let (d', o) := observe { σ := σ, opened := true }
          (d', s!"open md={md} | {o}")
    | _, _, _, _, _ => (d, "bad-op")
  | ["e2e", ending, a] =>
    match e2e ending (a == "answers") with
    | some o => (d, o)
    | none => (d, "bad-op")
  | _ =>
    if d.failed then (d, "closed")
    else if !d.opened then (d, "bad-op")
    else
      match (splitEvents opWords []).mapM parseEvent with
      | none => (d, "bad-op")
      | some acts =>
        let (k, j) := match hint with
          | [k, j] => (k.toNat?.getD 0, j.toNat?.getD 0)
          | _ => (0, 0)
        let σ := acts.foldl (fun σ a => (S2S.Forwarder.step σ a).getD σ) d.σ
        let σ := settle (σ.s.out.length + k) (σ.i.out.length + j) fuel σ
        observe { d with σ := σ }

end Drv.Forwarder
