import S2S.Model.Routing
import S2S.Spec.RoutingFaults
import Driver.Util
/-
Driver for engine "routing" (C01–C04).  Big-step ops: one harness op = one environment action
followed by `settle`, which fires the eager internal actions (everything the real goroutines
do on their own until they block) to a fixpoint.  `settle` only ever applies `Routing.step`, so
every big-step run is a fine-step run and the theorems of Props/C01..C04 apply to it.
-/
namespace Drv.Routing
open S2S.Routing

structure DSt where
  cfg   : Cfg := {}
  σ     : State := State.init 0 0
  gates : List Bool := []          -- per target: `true` = Send is blocked by the harness
  sgates : List Bool := []         -- per source: `true` = the source cluster does not read: the receiver's Send of an ack blocks
  sheld  : List Nat := []          -- per source: trailing acks of `acksSent` whose Send has not returned yet (0 or 1)
  seenEmit : List Nat := []        -- per target: emitted messages already reported
  seenAck  : List Nat := []        -- per source: acks already reported
  hint     : List (TId × List (SId × Bool)) := []
  γ        : Ghost := {}           -- ghost bookkeeping of Spec/RoutingFaults (incarnation bases, announced watermarks, lost tasks)
  noRetry  : Bool := false         -- no virtual time passes in this op: sleeping retry loops do not wake up   -- per target: sources of the enqueues still to happen, in the implementation's observed order

/-- candidate eager actions in a fixed priority order -/
def candidates (d : DSt) : List Act :=
  let ns := d.σ.sources.length
  let nt := d.σ.targets.length
  let srcActs := (List.range ns).flatMap fun s =>
    let x := d.σ.src s
    -- a `sendAck` goroutine blocked in Send does nothing else: no further `rack` for that source until the gate opens
    (if d.sheld.getD s 0 > 0 then [] else [Act.rack s]) ++
    (match x.pc with
     | .bcast _ todo => todo.map fun p => Act.bcastStep s p.1
     | .deliver pending => if d.noRetry then [] else pending.map fun p => Act.deliver s p.1
     | .idle => [])
  let tgtActs := (List.range nt).flatMap fun t =>
    let tg := d.σ.tgt t
    (if d.gates.getD t false then [] else [Act.emit t]) ++ [Act.take t] ++
    (match tg.replayTodo with
     | some todo => (todo.map fun p => Act.replayStep t p.1) ++ [Act.replayDone t]
     | none => []) ++
    (match tg.ackPc with
     | .forwarding todo _ _ => (todo.map fun p => Act.ackFwd t p.1) ++ [Act.ackFin t]
     | .idle => [])
  let replayActs := (List.range nt).flatMap fun t =>
    match (d.σ.tgt t).replayTodo with
    | some todo => (todo.map fun p => Act.replayStep t p.1) ++ [Act.replayDone t]
    | none => []
  replayActs ++ srcActs ++ tgtActs

/-- (target, (source, carries tasks)) of an action that may enqueue into a target's channel -/
def enqueueOf : Act → Option (TId × (SId × Bool))
  | .bcastStep s t => some (t, (s, false))
  | .deliver s t => some (t, (s, true))
  | .replayStep t s => some (t, (s, false))
  | _ => none

def hintAllows (hint : List (TId × List (SId × Bool))) (a : Act) : Bool :=
  match enqueueOf a with
  | none => true
  | some (t, s) => match aget hint t with
    | some (h :: _) => h == s
    | _ => true

/-- first enabled candidate the observed enqueue order allows -/
def firstEnabled (c : Cfg) (σ : State) (hint : List (TId × List (SId × Bool))) : List Act → Option (State × List (TId × List (SId × Bool)))
  | [] => none
  | a :: rest =>
    if !hintAllows hint a then firstEnabled c σ hint rest
    else match S2S.Routing.step c σ a with
      | some σ' =>
        let hint' := match enqueueOf a with
          | some (t, _) =>
            if (σ'.tgt t).handed.length > (σ.tgt t).handed.length then
              (match aget hint t with
               | some (_ :: r) => aset hint t r
               | _ => hint)
            else hint
          | none => hint
        some (σ', hint')
      | none => firstEnabled c σ hint rest

/-- after a step: an acknowledgement that a gated source's receiver has just "sent" is in fact held in a blocked Send -/
def holdNew (d : DSt) (σ' : State) : List Nat :=
  (List.range σ'.sources.length).map fun s =>
    let grew := (σ'.src s).acksSent.length - (d.σ.src s).acksSent.length
    -- the harness's slow source refuses only what is NEW to it: a repeated watermark (keep-alive re-send) still gets through
    let isNew := (σ'.src s).acksSent.getLast? != (d.σ.src s).acksSent.getLast?
    if d.sgates.getD s false && grew > 0 && isNew then d.sheld.getD s 0 + grew else d.sheld.getD s 0

def settle : Nat → DSt → DSt
  | 0, d => d
  | fuel + 1, d =>
    match firstEnabled d.cfg d.σ d.hint (candidates d) with
    | some (σ', h') => settle fuel { d with σ := σ', hint := h', sheld := holdNew d σ' }
    | none => d

def showEmitted (e : Emitted) : String :=
  let pairs := (e.ids.zip e.orig).map fun (p, o) => s!"{p}:{o}"
  Drv.joinWith "," pairs ++ s!"/{e.high}"

/-- collapse consecutive duplicates (keep-alive re-sends are idempotent) -/
def dedup : List Int → Option Int → List Int
  | [], _ => []
  | a :: r, prev => if prev == some a then dedup r prev else a :: dedup r (some a)

/-- observation after an op: new emitted messages per target, new acks per source, channel lengths -/
def observe (d : DSt) : DSt × String :=
  let nt := d.σ.targets.length
  let ns := d.σ.sources.length
  let tparts := (List.range nt).map fun t =>
    let tg := d.σ.tgt t
    let seen := d.seenEmit.getD t 0
    let fresh := (tg.emitted.drop seen).filter (fun e => !e.keepalive)
    s!"T{t}=[" ++ Drv.joinWith ";" (fresh.map showEmitted) ++ "]"
  let sparts := (List.range ns).map fun s =>
    let x := d.σ.src s
    let seen := d.seenAck.getD s 0
    let prev := (x.acksSent.take seen).getLast?
    -- what the source cluster has received: everything sent except the acknowledgement held in a blocked Send
    let visible := x.acksSent.take (x.acksSent.length - d.sheld.getD s 0)
    let fresh := dedup (visible.drop seen) prev
    s!"S{s}=[" ++ Drv.joinWith "," (fresh.map toString) ++ "]"
  let ch := (List.range nt).map fun t =>
    let tg := d.σ.tgt t
    if tg.registered then s!"{t}:{tg.sendChan.length}" else s!"{t}:-"
  let ak := (List.range ns).map fun s =>
    let x := d.σ.src s
    if x.active then s!"{s}:{x.ackChan.length}" else s!"{s}:-"
  let d' := { d with
    seenEmit := (List.range nt).map fun t => (d.σ.tgt t).emitted.length
    seenAck := (List.range ns).map fun s => (d.σ.src s).acksSent.length - d.sheld.getD s 0 }
  (d', Drv.joinWith " " tparts ++ " | " ++ Drv.joinWith " " sparts ++ " | ch " ++ Drv.joinWith " " ch ++ " | ak " ++ Drv.joinWith " " ak)

def fuel : Nat := 200000

/-- sources of the messages already in a target's pipeline (held message, then channel) -/
def pipeline (tg : Target) : List SId :=
  (match tg.holding with | some e => [e.src] | none => []) ++ tg.sendChan.map Msg.src

/-- `3t` / `3w` : source 3, task-bearing / watermark-only -/
def parseHintItem (w : String) : Option (SId × Bool) :=
  if w.endsWith "t" then (w.dropEnd 1).toString.toNat?.map (·, true)
  else if w.endsWith "w" then (w.dropEnd 1).toString.toNat?.map (·, false)
  else none

def parseHint : List String → List (TId × List (SId × Bool))
  | [] => []
  | w :: rest =>
    match w.splitOn ":" with
    | [t, l] => match t.toNat? with
      | some t => (t, (l.splitOn ",").filterMap parseHintItem) :: parseHint rest
      | none => parseHint rest
    | _ => parseHint rest

def applyEnv (d : DSt) (acts : List Act) (hintWords : List String) : DSt × String :=
  -- the observed per-target source order covers what is already in the pipeline plus the new enqueues
  let hint := (parseHint hintWords).map fun (t, l) => (t, l.drop (pipeline (d.σ.tgt t)).length)
  -- the environment hypothesis of the theorems (`EnvOKF`: `RecvOK` + `RecvFresh`) is CHECKED on every batch the harness
  -- sends: a harness that violates it gets an observation the real code never produces, i.e. a reported disagreement
  let (σ, γ, envOK) := acts.foldl (fun (acc : State × Ghost × Bool) a =>
    let (σ, γ, ok) := acc
    match S2S.Routing.step d.cfg σ a with
    | none => (σ, γ, ok)
    | some σ' =>
      let ok' := match a with
        | .recv s tasks high => ok && decide (RecvOK σ.targets.length (σ.src s) tasks high) && decide (RecvFresh σ γ s tasks)
        | _ => ok
      (σ', γ.next d.cfg σ a, ok')) (d.σ, d.γ, true)
  let (d', o) := observe (settle fuel { d with σ := σ, γ := γ, hint := hint })
  ({ d' with noRetry := false }, if envOK then o else "ENV-HYPOTHESIS-VIOLATED-BY-HARNESS " ++ o)

def parseTasks : List String → Option (List (Int × TId))
  | [] => some []
  | w :: rest =>
    match w.splitOn ":" with
    | [a, b] => match a.toInt?, b.toNat?, parseTasks rest with
      | some id, some t, some r => some ((id, t) :: r)
      | _, _, _ => none
    | _ => none

def step (d : DSt) (line : String) : DSt × String :=
  let ws := Drv.words line
  let opWords := ws.takeWhile (· != "~")
  let hint := (ws.dropWhile (· != "~")).drop 1
  match opWords with
  | ["begin", ns, nt, cap, seedFlag] =>
    match ns.toNat?, nt.toNat?, cap.toNat? with
    | some ns, some nt, some cap =>
      ({ cfg := { chanCap := cap, seedAcks := seedFlag == "1" }, σ := State.init ns nt,
         gates := List.replicate nt false, sgates := List.replicate ns false, sheld := List.replicate ns 0, seenEmit := List.replicate nt 0, seenAck := List.replicate ns 0 }, "ok")
    | _, _, _ => (d, "bad-op")
  | ["opensrc", s] => match s.toNat? with
    | some s => applyEnv d [.openSrc s] hint
    | none => (d, "bad-op")
  | ["opentgt", t] => match t.toNat? with
    | some t => applyEnv d [.openTgt t, .startTgt t] hint
    | none => (d, "bad-op")
  | ["opentgt", t, "nosleep"] => match t.toNat? with
    -- the target registers but no virtual time passes before the next op: receivers asleep in their retry back-off stay asleep
    | some t => applyEnv { d with noRetry := true } [.openTgt t, .startTgt t] hint
    | none => (d, "bad-op")
  | "batch" :: s :: high :: tasks =>
    match s.toNat?, high.toInt?, parseTasks tasks with
    | some s, some h, some ts => applyEnv d [.recv s ts h] hint
    | _, _, _ => (d, "bad-op")
  | ["ack", t, w] => match t.toNat?, w.toInt? with
    | some t, some w => applyEnv d [.tack t w] hint
    | _, _ => (d, "bad-op")
  | ["gate", t, b] => match t.toNat? with
    | some t => applyEnv { d with gates := d.gates.set t (b == "1") } [] hint
    | none => (d, "bad-op")
  | ["sgate", s, b] => match s.toNat? with
    -- closing: from now on an ack this receiver sends stays in its blocked Send; opening: the held ack arrives
    | some s => applyEnv { d with sgates := d.sgates.set s (b == "1"), sheld := if b == "1" then d.sheld else d.sheld.set s 0 } [] hint
    | none => (d, "bad-op")
  | ["breaktgt", t] => match t.toNat? with
    | some t => applyEnv { d with gates := d.gates.set t false } [.breakTgt t] hint
    | none => (d, "bad-op")
  | ["breaksrc", s] => match s.toNat? with
    | some s =>
      if d.sheld.getD s 0 > 0 then (d, "unsupported: source stream broken while an acknowledgement is held in a blocked Send")
      else applyEnv { d with sgates := d.sgates.set s false } [.breakSrc s] hint
    | none => (d, "bad-op")
  | _ => (d, "bad-op")

end Drv.Routing
