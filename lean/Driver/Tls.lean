import S2S.Model.Tls
import Driver.Util
/- Driver for engine "tls" (C19). -/
namespace Drv.Tls
open S2S.Tls

def parseCfg : List String → Option Config
  | [hc, sn, ca, sk] =>
    let ca? : Option CAFile := match ca with
      | "good" => some .good | "noCACert" => some .noCACert | "unreadable" => some .unreadable | "unset" => some .unset | _ => none
    ca?.map fun ca => { hasCertKey := hc == "1", serverName := sn == "1", caFile := ca, skipVerify := sk == "1" }
  | _ => none

def parseCred : String → Option Cred
  | "validChain" => some .validChain | "wrongName" => some .wrongName | "selfSigned" => some .selfSigned
  | "otherCA" => some .otherCA | "expired" => some .expired | "wrongUsage" => some .wrongUsage | "none" => some .none
  | "expiredRecently" => some .expiredRecently | "hostTrusted" => some .hostTrusted | "borrowedChain" => some .borrowedChain | "validPlusCA" => some .validPlusCA
  | _ => none

def showAuth : ClientAuth → String
  | .noClientCert => "noClientCert" | .requireAnyClientCert => "requireAnyClientCert" | .requireAndVerifyClientCert => "requireAndVerifyClientCert"

def admitStr (b : Bool) : String := if b then "admit" else "refuse"

def step (line : String) : String :=
  match Drv.words line with
  | "srvcfg" :: rest => match parseCfg rest with
    | some c => match serverTLS curVerifyMode c with
      | .disabled => "disabled" | .error => "error"
      | .ok s => s!"ok {showAuth s.clientAuth} {s.hasCAs} {s.hasCert}"
    | none => "bad-op"
  | "clicfg" :: rest => match parseCfg rest with
    | some c => match clientTLS c with
      | .disabled => "disabled" | .error => "error"
      | .ok s => s!"ok {s.insecureSkipVerify} {s.serverNameSet} {s.customRoots} {s.hasCert}"
    | none => "bad-op"
  | ["srvadmit", a, b, c, d, cred] => match parseCfg [a, b, c, d], parseCred cred with
    | some cfg, some cr => match serverTLS curVerifyMode cfg with
      | .ok s => admitStr (serverAdmits s cr)
      | _ => "noendpoint"
    | _, _ => "bad-op"
  | ["cliadmit", a, b, c, d, cred] => match parseCfg [a, b, c, d], parseCred cred with
    | some cfg, some cr => match clientTLS cfg with
      | .ok s => admitStr (clientAdmits s cr)
      | _ => "noendpoint"
    | _, _ => "bad-op"
  | ["listener", _, a, b, c, d, cred] => match parseCfg [a, b, c, d], parseCred cred with
    | some cfg, some cr => match serverTLS curVerifyMode cfg with
      | .ok s => admitStr (serverAdmits s cr)
      | _ => "noendpoint"
    | _, _ => "bad-op"
  | _ => "bad-op"

end Drv.Tls
