import S2S.Model.TranslateVal
import S2S.Gen.TGBase
import Driver.Util
/-
Driver for the value-level ops `valns` / `valsa` (C12 / C13 / C14; engines "translate" and "namemap"):

  valns lwer=<type id> <mapping> <tree>      observation:  <matched 0|1> <tree>  |  error
  valsa lwer=<type id> <mapping> <tree>      observation:  <matched 0|1> <tree>  |  error  |  collision

The tree format is documented in go/eng/valtree_test.go.  Strings stay in their escaped form (the escaping is
injective and the model only compares names); parsing and printing are ordinary executable code.
-/
namespace Drv.TranslateVal
open S2S.TranslateVal S2S.Translate

abbrev V := Val String

def isTokChar (c : Char) : Bool := c.isAlphanum || c == '_' || c == '.' || c == '-' || c == '%'

def takeTok (cs : List Char) : String × List Char :=
  let (a, b) := cs.span isTokChar
  (String.ofList a, b)

def takeNat (cs : List Char) : Option (Nat × List Char) :=
  let (a, b) := cs.span Char.isDigit
  if a.isEmpty then none else (String.ofList a).toNat?.map (·, b)

mutual
partial def parseVal (cs : List Char) : Option (V × List Char) :=
  match cs with
  | 'S' :: r => let (t, r) := takeTok r; some (.str t, r)
  | 'T' :: r => let (t, r) := takeTok r; some (.tok t, r)
  | 'P' :: r => let (t, r) := takeTok r; some (.payload t, r)
  | 'N' :: 'p' :: r => some (.nil .ptr, r)
  | 'N' :: 'i' :: r => some (.nil .iface, r)
  | 'N' :: 's' :: r => some (.nil .slice, r)
  | 'N' :: 'm' :: r => some (.nil .map, r)
  | 'M' :: r =>
    match takeNat r with
    | some (ty, '(' :: r) => (parseSeq r []).map fun (vs, r) => (.msg ty vs, r)
    | _ => none
  | 'L' :: '(' :: r => (parseSeq r []).map fun (vs, r) => (.list vs, r)
  | 'D' :: '(' :: r => (parseSeq r []).map fun (vs, r) => (.map vs, r)
  | 'K' :: r =>
    let (k, r) := takeTok r
    match r with
    | '=' :: r => (parseVal r).map fun (v, r) => (.kv k v, r)
    | _ => none
  | 'B' :: f :: '(' :: r => (parseSeq r []).map fun (vs, r) => (.blobEv (f == '1') vs, r)
  | 'R' :: f :: r => let (t, r) := takeTok r; some (.blobRaw (f == '1') t, r)
  | _ => none
/-- after `(`: values separated by `,` up to `)` -/
partial def parseSeq (cs : List Char) (acc : List V) : Option (List V × List Char) :=
  match cs with
  | ')' :: r => some (acc.reverse, r)
  | ',' :: r => parseItem r acc
  | _ => parseItem cs acc
partial def parseItem (cs : List Char) (acc : List V) : Option (List V × List Char) :=
  match parseVal cs with
  | some (v, r) => parseSeq r (v :: acc)
  | none => none
end

def parseTree (s : String) : Option V :=
  match parseVal s.toList with
  | some (v, []) => some v
  | _ => none

def nilTok : NilK → String
  | .ptr => "Np" | .iface => "Ni" | .slice => "Ns" | .map => "Nm"

def keyOf : V → String
  | .kv k _ => k
  | _ => ""

/-- the same dump as the Go side: map entries sorted by key; the re-encoded flag of a blob nested inside decoded events
    is not observable on the Go side (events are decoded afresh for the dump) and printed as 0 -/
partial def dump (inBlob : Bool) : V → String
  | .str s => "S" ++ s
  | .tok t => "T" ++ t
  | .payload t => "P" ++ t
  | .nil k => nilTok k
  | .msg ty fs => "M" ++ toString ty ++ "(" ++ ",".intercalate (fs.map (dump inBlob)) ++ ")"
  | .list vs => "L(" ++ ",".intercalate (vs.map (dump inBlob)) ++ ")"
  | .map es =>
    let sorted := (es.toArray.qsort (fun a b => keyOf a < keyOf b)).toList
    "D(" ++ ",".intercalate (sorted.map (dump inBlob)) ++ ")"
  | .kv k v => "K" ++ k ++ "=" ++ dump inBlob v
  | .blobRaw e t => "R" ++ (if e then "1" else "0") ++ t
  | .blobEv re evs => "B" ++ (if re && !inBlob then "1" else "0") ++ "(" ++ ",".intercalate (evs.map (dump true)) ++ ")"

/-- `k=v;k=v` (escaped names) or `-` -/
def parseMap (s : String) : Option (List (String × String)) :=
  if s = "-" then some []
  else (s.splitOn ";").mapM fun kv =>
    match kv.splitOn "=" with
    | [k, v] => some (k, v)
    | _ => none

def nameId (n : String) : Nat := (S2S.Gen.TG.names.idxOf? n).getD 1000000000

def evAttr (t : String) : Option Nat :=
  if t.startsWith "E" then (t.drop 1).toString.toNat? else none

def ext (lwer : Nat) : Ext String :=
  { empty := ""
    evAttr := evAttr
    eventTypeField := nameId "EventType"
    variantField := nameId "Variant"
    workflowEventField := nameId "WorkflowEvent"
    namespaceField := nameId "Namespace"
    eventsField := nameId "Events"
    indexedFieldsField := nameId "IndexedFields"
    lwerType := lwer }

def parseLwer (s : String) : Option Nat :=
  if s.startsWith "lwer=" then (s.drop 5).toString.toNat? else none

def out (r : V × Bool) : String := (if r.2 then "1 " else "0 ") ++ dump false r.1

def step (line : String) : String :=
  let g := S2S.Gen.TG.graph
  let tb := S2S.Gen.TG.tables
  match Drv.words line with
  | ["valns", l, m, t] =>
    match parseLwer l, parseMap m, parseTree t with
    | some lw, some mp, some v =>
      let X := ext lw
      if nsErr g tb X v then "error" else out (translateNs g tb X mp v)
    | _, _, _ => "bad-op"
  | ["valsa", l, m, t] =>
    match parseLwer l, parseMap m, parseTree t with
    | some lw, some mp, some v =>
      let X := ext lw
      if saErr g tb X (look mp) v then "error"
      else if saCollision g tb X mp v then "collision"
      else out (translateSA g tb X mp v)
    | _, _, _ => "bad-op"
  | _ => "bad-op"

end Drv.TranslateVal
