import S2S.Model.Utf8
import Driver.Util
/- Driver for engine "utf8" (C17). -/
namespace Drv.Utf8
open S2S.Utf8

def hexVal (c : Char) : Option Nat :=
  if '0' ≤ c ∧ c ≤ '9' then some (c.toNat - '0'.toNat)
  else if 'a' ≤ c ∧ c ≤ 'f' then some (c.toNat - 'a'.toNat + 10)
  else none

def parseHexList : List Char → Option Bytes
  | [] => some []
  | a :: b :: rest => do
    let x ← hexVal a
    let y ← hexVal b
    let r ← parseHexList rest
    pure (UInt8.ofNat (x * 16 + y) :: r)
  | _ => none

/-- `-` is the empty byte string -/
def parseHex (s : String) : Option Bytes :=
  if s == "-" then some [] else parseHexList s.toList

def hexDigit (n : Nat) : Char :=
  if n < 10 then Char.ofNat ('0'.toNat + n) else Char.ofNat ('a'.toNat + n - 10)

def showHex (b : Bytes) : String :=
  if b.isEmpty then "-"
  else String.ofList (b.flatMap fun x => [hexDigit (x.toNat / 16), hexDigit (x.toNat % 16)])

/-- `nil` is the empty chain; otherwise comma-separated messages, outermost first -/
def parseChain (s : String) : Option (List Bytes) :=
  if s == "nil" then some [] else (s.splitOn ",").mapM parseHex

def showChain (c : List Bytes) : String :=
  if c.isEmpty then "nil" else ",".intercalate (c.map showHex)

def kv (key : String) (w : String) : Option String :=
  match w.splitOn "=" with
  | [k, v] => if k == key then some v else none
  | _ => none

def parseBool : String → Option Bool
  | "1" => some true | "0" => some false | _ => none

def parseOkErr : String → Option Bool
  | "ok" => some true | "err" => some false | _ => none

def parseDelegate : String → Option Delegate
  | "ok" => some .ok | "invalidutf8" => some .invalidUtf8 | "other" => some .otherErr | _ => none

def parseRepair : String → Option RepairRes
  | "changed" => some .changed | "unchanged" => some .unchanged | "err" => some .err | _ => none

def showStage : RepairStage → String
  | .notMarshaler => "not-marshaler" | .notConvertible => "not-convertible" | .legacyUnmarshal => "legacy-unmarshal"
  | .repairError => "repair-error" | .nothingRepaired => "nothing-repaired" | .remarshal => "remarshal"
  | .reunmarshal => "reunmarshal" | .repaired => "repaired"

def b01 (b : Bool) : String := if b then "1" else "0"

def parseStages : List String → Option Stages
  | [d, m, c, l, r, rm, ru] => do
    let d ← (kv "delegate" d) >>= parseDelegate
    let m ← (kv "marshaler" m) >>= parseBool
    let c ← (kv "convertible" c) >>= parseBool
    let l ← (kv "legacy" l) >>= parseOkErr
    let r ← (kv "repair" r) >>= parseRepair
    let rm ← (kv "remarshal" rm) >>= parseOkErr
    let ru ← (kv "reunmarshal" ru) >>= parseOkErr
    pure { delegate := d, marshaler := m, convertible := c, legacy := l, repair := r, remarshal := rm, reunmarshal := ru }
  | _ => none

def parseVisitor : String → Option (Option Bool)
  | "err" => some none | "match" => some (some true) | "nomatch" => some (some false) | _ => none

def parseBlobStages : List String → Option BlobStages
  | [e, d, l, r, rs, rd, v, se] => do
    let e ← (kv "empty" e) >>= parseBool
    let d ← (kv "deser" d) >>= parseDelegate
    let l ← (kv "legacy" l) >>= parseOkErr
    let r ← (kv "repair" r) >>= parseRepair
    let rs ← (kv "reser" rs) >>= parseOkErr
    let rd ← (kv "redeser" rd) >>= parseOkErr
    let v ← (kv "visitor" v) >>= parseVisitor
    let se ← (kv "ser" se) >>= parseOkErr
    pure { empty := e, deserialize := d, legacy := l, repair := r, reserialize := rs, redeserialize := rd, visitor := v, serialize := se }
  | _ => none

def step (line : String) : String :=
  match Drv.words line with
  | ["valid", h] => match parseHex h with
    | some b => if validUtf8 b then "true" else "false"
    | none => "bad-op"
  | ["tovalid", h] => match parseHex h with
    | some b => showHex (toValidUtf8 b)
    | none => "bad-op"
  | ["u8", h] => match parseHex h with
    | some b => s!"{if validUtf8 b then "true" else "false"} {showHex (toValidUtf8 b)}"
    | none => "bad-op"
  | ["chain", c] => match parseChain c with
    | some ch =>
      let o := repairFailureChainFull ch
      let tag := match o.err with | none => "ok" | some .maxDepth => "err"
      s!"{tag} changed={b01 o.changed} {showChain o.chain}"
    | none => "bad-op"
  | "codec" :: rest => match parseStages rest with
    | some s => match codecUnmarshal s with
      | (.okDelegate, e) => s!"ok-delegate entered={b01 e}"
      | (.okRepaired, e) => s!"ok-repaired entered={b01 e}"
      | (.errOther, e) => s!"err-other entered={b01 e}"
      | (.errInvalidUtf8 st, e) => s!"err-invalidutf8 stage={showStage st} entered={b01 e}"
    | none => "bad-op"
  | "blob" :: rest => match parseBlobStages rest with
    | some s =>
      let (r, m, c, e) := blobTranslate s
      let rs := match r with | .unchanged => "unchanged" | .rewritten => "rewritten" | .error => "error"
      -- what the code logs: an error line when the repair failed, a debug line when it repaired
      let failed := e && (tryRepairBlob s).2.2
      let lg := if failed then "failed" else if e && c then "repaired" else "none"
      s!"{rs} matched={b01 m} log={lg}"
    | none => "bad-op"
  | _ => "bad-op"

end Drv.Utf8
