import S2S.Model.Acl
import Driver.Util
import Driver.Translate
/- Driver for engine "acl" (C15, C16). -/
namespace Drv.Acl
open S2S.Acl

def csv (s : String) : List String := (s.splitOn ",").filter (· ≠ "")

/-- `none` or `p=<methods csv>|<namespaces csv>` -/
def parsePolicy (s : String) : Option (Option Policy) :=
  if s = "none" then some none
  else if s.startsWith "p=" then
    match ((s.drop 2).toString.splitOn "|") with
    | [m, n] => some (some ⟨csv m, csv n⟩)
    | _ => none
  else none

def showDec : Decision → String
  | .forward => "forward" | .denied => "denied"

def step (line : String) : String :=
  match Drv.words line with
  | ["unary", inb, pol, full, nss] =>
    match parsePolicy pol with
    | some p =>
      if nss = "!" then showDec (handleUnaryV (inb == "1") p full none) else
      showDec (handleUnary (inb == "1") p full (if nss = "." then [] else (nss.splitOn ",").map fun n => if n = "-" then "" else n))
    | none => "bad-op"
  | ["stream", inb, pol, full, _] =>
    match parsePolicy pol with
    | some p => showDec (handleStream (inb == "1") p full)
    | none => "bad-op"
  | "aclpath" :: pol :: full :: name :: path =>
    -- the access matcher is applied to every namespace-name leaf the visitor reaches
    match parsePolicy pol, Drv.Translate.parsePath path with
    | some p, some (_, pth) =>
      let n := if name = "-" then "" else name
      let seen := if S2S.Translate.translates S2S.Gen.TG.graph S2S.Gen.TG.tables pth then [n] else []
      showDec (handleUnary true p full seen)
    | _, _ => "bad-op"
  | "listns" :: pol :: names =>
    match parsePolicy pol with
    | some p => Drv.joinWith "," ((filterNamespaces (p.map (·.namespaces)) (names.map fun n => if n = "-" then "" else n)).map fun n => if n = "" then "-" else n)
    | none => "bad-op"
  | _ => "bad-op"

end Drv.Acl
