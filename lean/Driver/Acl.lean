import S2S.Model.Acl
import Driver.Util
/- Driver for engine "acl" (C15, C16). -/
namespace Drv.Acl
open S2S.Acl

def csv (s : String) : List String := (s.splitOn ",").filter (· ≠ "")

/-- `none` or `p=<methods csv>|<namespaces csv>` -/
def parsePolicy (s : String) : Option (Option Policy) :=
  if s = "none" then some none
  else if s.startsWith "p=" then
    match ((s.drop 2).toString.splitOn "|") with
    | [m, n] => some (some ⟨csv m, csv n⟩)
    | _ => none
  else none

def showDec : Decision → String
  | .forward => "forward" | .denied => "denied"

def step (line : String) : String :=
  match Drv.words line with
  | ["unary", inb, pol, full, nss] =>
    match parsePolicy pol with
    | some p => showDec (handleUnary (inb == "1") p full (if nss = "-" then [] else csv nss))
    | none => "bad-op"
  | ["stream", inb, pol, full, _] =>
    match parsePolicy pol with
    | some p => showDec (handleStream (inb == "1") p full)
    | none => "bad-op"
  | "listns" :: pol :: names =>
    match parsePolicy pol with
    | some p => Drv.joinWith "," (filterNamespaces (p.map (·.namespaces)) names)
    | none => "bad-op"
  | _ => "bad-op"

end Drv.Acl
