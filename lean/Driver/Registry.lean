import S2S.Model.Registry
import Driver.Util
/-
Driver for engine "registry" (C08).  The harness holds every worker of the real code at its next
schedule point and releases one at a time; one released step is a fixed, short sequence of atomic
steps (`Act`s) of the model.  After every op the workers the trace has not paused run on in a
canonical order (newest incarnation first, sender before receiver) — `autorun` below does exactly
what `c08World.autorun` does in go/eng/c08_registry_test.go.  Everything is a composition of
`Registry.step`, so every driver run is a fine-step run and the theorems of Props/C08 apply to it.

Ops: `begin [nogap]`, `open <c> [fail]`, `open! <c>`, `break <k>`, `selfend <k>` (= `Act.selfEnd k`: the upstream `Send` of
receiver `k` fails, the receiver ends on its own and the shared latch ends the sender too; no-op unless receiver `k` is
running and its latch has not fired), `pause <point> <k>`, `resume <point> <k>`, `wm <k> <n>`, `settle`, `end`.
-/
namespace Drv.Registry
open S2S.Registry

structure DSt where
  cfg    : Cfg := {}                -- engine `registry`: the current tree; `registry-asis`: `Cfg.asIs` (before the two fixes)
  σ      : State := {}
  paused : List (String × Tok) := []
  fails  : List Tok := []          -- incarnations whose client stream cannot be opened
  shards : List Shard := []        -- shards opened so far (sorted)
  noTick : Bool := false           -- `open!`: registrations of this op do not see time pass
  gap    : Bool := true            -- the code under test has the schedule point `replay.afterLookup` (between the replay's channel
                                   -- look-up and its send); `begin nogap`: a checkout without that hook, look-up and send run together

def app (d : DSt) (a : Act) : DSt := { d with σ := (step d.cfg d.σ a).getD d.σ }

/-- the workers notice a broken stream / a cancelled context as soon as they exist -/
def notices (d : DSt) : DSt :=
  (List.range d.σ.next).foldl (fun d i => app (app d (.sNotice i)) (.rNotice i)) d

/-- the schedule point a sender rests at -/
def sPoint (σ : State) (k : Tok) : Option String :=
  let x := σ.inc k
  if x.rpc = .start then none else
  match x.spc with
  | .start => some "s.start"
  | .set => some "s.set"
  | .added => some "RegisterShard.afterAdd"
  | .notify _ none => some "s.replay"
  | .notify _ (some _) => some "replay.afterLookup"
  | .running => if σ.down k then some "sender.beforeClose" else none
  | .closed => some "sender.afterClose"
  | .unreg => some "UnregisterShard.afterUnlock"
  | .rmChan => some "s.rmChan"
  | .done => none

def rPoint (σ : State) (k : Tok) : Option String :=
  match (σ.inc k).rpc with
  | .start => some "r.start"
  | .term _ => some "r.term"
  | .termRm => some "r.termRm"
  | .termAck => some "r.termAck"
  | .opening => some "r.open"
  | .opened => some "r.setAck"
  | .ackSet => some "r.setCancel"
  | .running => if σ.down k then some "r.rmAck" else none
  | .cleanCancel => some "r.rmCancel"
  | _ => none

/-- skip the receivers of the snapshot that hold no watermark; when none is left the registration returns -/
def notifyNorm : Nat → DSt → Tok → DSt
  | 0, d, _ => d
  | fuel + 1, d, k =>
    match (d.σ.inc k).spc with
    | .notify todo none =>
      match todo.find? (fun r => !(d.σ.inc r).lastWm) with
      | some r => notifyNorm fuel (app d (.sLook k r)) k
      | none => if todo.isEmpty then app d (.sNotifyDone k) else d
    | _ => d

/-- release the sender of `k` from its point and run it to the next one -/
def releaseS (d : DSt) (k : Tok) : DSt :=
  let x := d.σ.inc k
  match x.spc with
  | .start => app d (.sSet k)
  | .set => app (if d.noTick then d else app d .tick) (.sAdd k)
  | .added => notifyNorm 1000 (app d (.sSnap k)) k
  | .notify todo none =>
    match todo.find? (fun r => (d.σ.inc r).lastWm) with
    | some r =>
      if d.gap then notifyNorm 1000 (app d (.sLook k r)) k     -- rests at `replay.afterLookup` when a channel was found
      else notifyNorm 1000 (app (app d (.sLook k r)) (.sSend k)) k
    | none => notifyNorm 1000 d k
  | .notify _ (some _) => notifyNorm 1000 (app d (.sSend k)) k
  | .running => app d (.sClose k)
  | .closed => app d (.sUnregCheck k)
  | .unreg => app d (.sUnregAgain k)
  | .rmChan => app d (.sRmChan k)
  | .done => d

def releaseR (d : DSt) (k : Tok) : DSt :=
  match (d.σ.inc k).rpc with
  | .start => app d (.rGet k)
  | .term _ => app d (.rCancel k)
  | .termRm => app d (.rRmCancel k)
  | .termAck => app d (.rForceAck k)
  | .opening => app d (.rOpen k (!(d.fails.contains k)))
  | .opened => app d (.rSetAck k)
  | .ackSet => app (app d (.rSetCancel k)) (.rRegActive k)
  | .running => app (app d (.rRmAck k)) (.rCheck k)
  | .cleanCancel => app (app d (.rRmOwnCancel k)) (.rUnregActive k)
  | _ => d

def isPaused (d : DSt) (p : String) (k : Tok) : Bool := d.paused.any (fun q => q.1 == p && q.2 == k)

/-- the next worker to run: newest incarnation first, sender before receiver -/
def pick (d : DSt) : Option (Tok × Bool) :=
  ((List.range d.σ.next).reverse).findSome? fun k =>
    match sPoint d.σ k with
    | some p => if isPaused d p k then
        (match rPoint d.σ k with
         | some q => if isPaused d q k then none else some (k, false)
         | none => none)
      else some (k, true)
    | none =>
      match rPoint d.σ k with
      | some q => if isPaused d q k then none else some (k, false)
      | none => none

def autorun : Nat → DSt → DSt
  | 0, d => d
  | fuel + 1, d =>
    if d.σ.crashed then d else
    let d := notices d
    match pick d with
    | some (k, true) => autorun fuel (notices (releaseS d k))
    | some (k, false) => autorun fuel (notices (releaseR d k))
    | none => d

def showTok : Option Tok → String
  | some t => toString t
  | none => "-"

def insertSorted (c : Nat) : List Nat → List Nat
  | [] => [c]
  | x :: r => if c < x then c :: x :: r else if c = x then x :: r else x :: insertSorted c r

def observe (d : DSt) (final : Bool) : String :=
  if d.σ.crashed then "crashed" else
  let σ := d.σ
  let parts := d.shards.map fun c =>
    s!"{c}:L={showTok ((aget σ.localShards c).map (·.1))},S={showTok (aget σ.sendChans c)},A={showTok (aget σ.ackChans c)}," ++
    s!"C={if (aget σ.cancels c).isSome then "+" else "-"},R={showTok (aget σ.actives c)}"
  let held := (List.range σ.next).flatMap fun k =>
    (match rPoint σ k with | some p => [s!"{k}r@{p}"] | none => []) ++
    (match sPoint σ k with | some p => [s!"{k}s@{p}"] | none => [])
  let ret := ((List.range σ.next).filter fun k => (σ.inc k).spc = .done ∧ (σ.inc k).rpc = .done).map toString
  Drv.joinWith " " parts ++ " | held " ++ Drv.joinWith "," held ++ " | ret " ++ Drv.joinWith "," ret ++
    (if final then " | leak 0" else "")

def fuel : Nat := 100000

def step (d : DSt) (line : String) : DSt × String :=
  match Drv.words line with
  | ["begin"] => ({ cfg := d.cfg }, "ok")
  | ["begin", "nogap"] => ({ cfg := d.cfg, gap := false }, "ok")
  | "open" :: c :: rest =>
    match c.toNat? with
    | some c =>
      let k := d.σ.next
      let d := { d with shards := insertSorted c d.shards, fails := if rest == ["fail"] then k :: d.fails else d.fails }
      let d := autorun fuel (app d (.open c (3 - c / 100)))
      (d, observe d false)
    | none => (d, "bad-op")
  | ["open!", c] =>
    match c.toNat? with
    | some c =>
      let d := { d with shards := insertSorted c d.shards, noTick := true }
      let d := autorun fuel (app d (.open c (3 - c / 100)))
      let d := { d with noTick := false }
      (d, observe d false)
    | none => (d, "bad-op")
  | ["break", k] =>
    match k.toNat? with
    | some k => let d := autorun fuel (app d (.brk k)); (d, observe d false)
    | none => (d, "bad-op")
  | ["selfend", k] =>
    -- the upstream `Send` of receiver `k` fails: the shared latch of incarnation `k` trips; then the canonical autorun
    -- (sender of `k` closes and unregisters, then the receiver of `k` runs its ordinary, un-cancelled clean-up)
    match k.toNat? with
    | some k => let d := autorun fuel (app d (.selfEnd k)); (d, observe d false)
    | none => (d, "bad-op")
  | ["pause", p, k] =>
    match k.toNat? with
    | some k => let d := { d with paused := (p, k) :: d.paused }; (d, observe d false)
    | none => (d, "bad-op")
  | ["resume", p, k] =>
    match k.toNat? with
    | some k =>
      let d := autorun fuel { d with paused := d.paused.filter (fun q => !(q.1 == p && q.2 == k)) }
      (d, observe d false)
    | none => (d, "bad-op")
  | ["wm", k, _] =>
    match k.toNat? with
    | some k => let d := autorun fuel (app d (.wm k)); (d, observe d false)
    | none => (d, "bad-op")
  | ["settle"] => let d := autorun fuel (app d .tick); (d, observe d false)
  | ["end"] =>
    let d := autorun fuel (app { d with paused := [] } .stop)
    (d, observe d true)
  | _ => (d, "bad-op")

end Drv.Registry
