import S2S.Model.MuxPool
import Driver.Util
/- Driver for engine "muxpool" (C10).  Every op is a `run` of an explicit list of fine-grained
   actions followed by `settle`, i.e. a fine-step run of the model. -/
namespace Drv.MuxPool
open S2S.MuxPool

structure DSt where
  σ   : Option St := none
  tcp : Bool := false          -- real receiver over loopback TCP: reduced observation, listener closes on cancel
  d   : Defects := Defects.asIs -- engine "muxpool" = the current tree; "muxpool-fixed" = the repaired tree (used to validate the proposed patch)

def showPhase : Phase → String
  | .idle => "blocked" | .acquired => "connecting" | .haveConn _ => "haveconn"
  | .haveSession _ => "pinging" | .pinged _ => "pinged" | .exited => "exited"

def b01 (b : Bool) : String := if b then "1" else "0"

def showReg (σ : St) : String :=
  match σ.registered with
  | [] => "-"
  | l => Drv.joinWith "," (l.map toString)

def showSt (tcp : Bool) (σ : St) : String :=
  if tcp then
    s!"reg={showReg σ} can={b01 σ.canAccept} open={σ.openConns} closed={b01 σ.mgrClosed}"
  else
    s!"reg={showReg σ} can={b01 σ.canAccept} phase={showPhase σ.phase} conns={σ.openConns}/{σ.conns.length} sess={σ.openSessions} closed={b01 σ.mgrClosed}"

/-- connection index of the `k`-th registered session (in key order), `k` taken modulo their number -/
def nthRegistered (σ : St) (k : Nat) : Option Nat :=
  let idx := (List.range σ.conns.length).filter fun c => (σ.conn c).stage.isRegistered
  if idx.isEmpty then none else idx[k % idx.length]?

/-- ≥ 41 s pass with the peer of the in-flight connection quiet: the ping fails after 10 s; if the
    provider then abandons the session (lifetime over), yamux's keep-alive (30 s + 10 s) shuts it down -/
def timePasses (d : Defects) (σ : St) : St :=
  match σ.phase with
  | .haveSession c => run d σ [.pingErr .writeTimeout, .peerClose c]
  | _ => σ

def act (d : Defects) (σ : St) (acts : List Act) : St := settle d (run d σ acts)

def stepSt (d : Defects) (tcp : Bool) (σ : St) : List String → Option St
  | ["conn", "ok"] => some (match σ.phase with | .acquired => act d σ [.connOk, .sessOk] | _ => σ)
  | ["conn", "sessfail"] => some (match σ.phase with | .acquired => act d σ [.connOk, .sessErr] | _ => σ)
  | ["conn", "err"] => some (match σ.phase with | .acquired => act d σ [.connErr] | _ => σ)
  | ["peer", kind] =>
    match σ.phase with
    | .haveSession c =>
      (match kind with
       | "ping-ok" => some (act d σ [.pingOk])
       | "ping-die" => some (act d σ [.pingOk, .peerClose c])   -- the peer hangs up between the successful Ping and addNewMux
       | "silent" => some (act d σ [.pingErr .writeTimeout, .peerClose c])
       | "mute" => some (act d σ [.pingErr .other, .peerClose c])
       | "slow" => some (act d σ [.pingErr .writeTimeout])
       | "eof" => some (act d σ [.peerClose c, .pingErr .eof])
       | "garbage" => some (act d σ [.peerClose c, .pingErr .other])
       | _ => none)
    | _ => if ["ping-ok", "ping-die", "silent", "mute", "slow", "eof", "garbage"].contains kind then some σ else none
  | ["die", k, kind] =>
    match k.toNat? with
    | none => none
    | some k =>
      match nthRegistered σ k with
      | none => if ["remote", "local", "stall", "slowclose"].contains kind then some σ else none
      | some c =>
        (match kind with
         | "remote" => some (act d σ [.peerClose c])
         | "local" => some (act d σ [.localClose c])
         | "stall" => some (settle d (run d (timePasses d σ) [.peerClose c]))
         | "slowclose" => some (settle d (run d (timePasses d σ) [.localClose c]))   -- up to a minute passes, then a local close whose teardown is slow
         | _ => none)
  | ["wait"] => some (settle d (timePasses d σ))
  | ["cancel"] =>
    let σ1 := run d σ [.cancel]
    let σ2 := if tcp then (match σ1.phase with | .acquired => run d σ1 [.connErr] | _ => σ1) else σ1
    some (settle d σ2)
  | ["heal"] => some (if σ.live then heal d (σ.cap + 3) σ else σ)
  | ["end"] =>
    let σ1 := match σ.phase with
      | .acquired => run d σ [.connErr]
      | .haveSession c => run d σ [.peerClose c, .pingErr .eof]
      | _ => σ
    some (settle d σ1)
  | _ => none

def step (s : DSt) (line : String) : DSt × String :=
  match Drv.words line with
  | "begin" :: n :: role :: rest =>
    match n.toNat?, (if role = "establisher" then some Role.establisher else if role = "receiver" then some Role.receiver else none) with
    | some n, some r =>
      if n = 0 then (s, "bad-op") else
      let tcp := rest == ["tcp"]
      if rest ≠ [] ∧ ¬ tcp then (s, "bad-op") else
      let σ := settle s.d (St.init n r)
      ({ s with σ := some σ, tcp := tcp }, showSt tcp σ)
    | _, _ => (s, "bad-op")
  | ws =>
    match s.σ with
    | none => (s, "bad-op")
    | some σ =>
      match stepSt s.d s.tcp σ ws with
      | none => (s, "bad-op")
      | some σ' => ({ s with σ := some σ' }, showSt s.tcp σ')

end Drv.MuxPool
