import S2S.Model.ConnMap
import Driver.Util
/- Driver for engine "connmap" (C11). -/
namespace Drv.ConnMap
open S2S.ConnMap

def showList (l : List Nat) : String :=
  match l with
  | [] => "-"
  | _ => Drv.joinWith "," (l.map toString)

def showSt (σ : St) : String :=
  let conn := match σ.connMap with
    | none => "nil"
    | some m => showList (m.map Prod.fst)
  s!"keys={showList σ.keys} conn={conn} dialed={showList (readyEndpoints σ)} can={if σ.canMakeCalls then "1" else "0"}"

def nthKey (σ : St) (k : Nat) : Option Nat :=
  if σ.keys.isEmpty then none else σ.keys[k % σ.keys.length]?

def showRpc : RpcResult → String
  | .closed => "closed" | .blocked => "blocked" | .unavailable => "unavailable" | .served _ => "ok"

def step (s : Option St) (line : String) : Option St × String :=
  match Drv.words line, s with
  | "begin" :: n :: _, _ =>
    match n.toNat? with
    | some n => if n = 0 then (s, "bad-op") else let σ := St.init n; (some σ, showSt σ)
    | none => (s, "bad-op")
  | _, none => (s, "bad-op")
  | ["add"], some σ => let σ' := run σ [.add]; (some σ', showSt σ')
  | ["add", "hiccup"], some σ => let σ' := run σ [.add]; (some σ', showSt σ')   -- a latency spike is not a failure: same as `add`
  | ["remove", k, kind], some σ =>
    if kind ≠ "remote" ∧ kind ≠ "local" then (s, "bad-op") else
    match k.toNat? with
    | none => (s, "bad-op")
    | some k =>
      match nthKey σ k with
      | none => (s, showSt σ)
      | some key => let σ' := run σ [.kill key, .unregister key]; (some σ', showSt σ')
  | ["inflight", k], some σ =>
    match k.toNat? with
    | none => (s, "bad-op")
    | some k =>
      match nthKey σ k with
      | none => (s, "bad-op")
      | some key => let σ' := run σ [.kill key, .unregister key]; (some σ', "failed " ++ showSt σ')
  | ["rapid"], some σ =>
    -- a burst of list updates whose last one is the current table: every update REPLACES the map (`.apply` is a
    -- function of the update's list alone), so the state after the burst is the state after its last update
    (s, showSt σ)
  | ["idle"], some σ =>
    -- a quiet period, then a call: no session-list update happened, the state and the call's outcome are those of `rpc`
    (s, showRpc (rpc firstBalancer σ 0) ++ " " ++ showSt σ)
  | ["rpc"], some σ => (s, showRpc (rpc firstBalancer σ 0))
  | ["cancel"], some σ =>
    -- the lifetime ends: every session context ends with it, every session unregisters itself
    let σ' := run σ (.cancel :: σ.keys.flatMap fun k => [.kill k, .unregister k])
    (some σ', showSt σ')
  | _, _ => (s, "bad-op")

end Drv.ConnMap
