import S2S.Model.RepairPaths
import S2S.Gen.RepairPaths
import Driver.Util
/- Driver for engine "repair" (C18): the pattern-driven visitor with the pattern set measured on the
   real code (regenerated facts).  `path` = one oracle path at a time, `multi` = several at once. -/
namespace Drv.Repair
open S2S.RepairPaths S2S.Gen.RepairPaths

def oracleL : List PathId := oracleOf chunks
def measuredL : List PathId := measuredOf chunks

/-- `pid*count` -/
def parsePlant (s : String) : Option (Nat × Nat) :=
  match s.splitOn "*" with
  | [p, c] => do
    let p ← p.toNat?
    let c ← c.toNat?
    pure (p, c)
  | _ => none

def step (line : String) : String :=
  match Drv.words line with
  | ["path", r, p] =>
    match r.toNat?, p.toNat? with
    | some r, some p =>
      if !oracleL.contains (r, p) then "bad-path"
      else if measuredL.contains (r, p) then "repaired" else "missed"
    | _, _ => "bad-op"
  | ["wire", r, p] =>
    -- through the codec: delegate rejects (invalid UTF-8), legacy decode, visitor, re-encode, decode
    match r.toNat?, p.toNat? with
    | some r, some p =>
      if !oracleL.contains (r, p) then "bad-path"
      else if measuredL.contains (r, p) then "ok-repaired" else "error:nothing-repaired"
    | _, _ => "bad-op"
  | ["pathf", r, p, _seed] =>
    match r.toNat?, p.toNat? with
    | some r, some p =>
      if !oracleL.contains (r, p) then "bad-path"
      else if measuredL.contains (r, p) then "repaired" else "missed"
    | _, _ => "bad-op"
  | ["multi", r, _seed, spec] =>
    match r.toNat?, (spec.splitOn ",").mapM parsePlant with
    | some r, some plants =>
      if plants.any (fun pc => !oracleL.contains (r, pc.1)) then "bad-path"
      else
        -- the flat model: every planted failure is one occurrence labelled with its path; the visitor
        -- repairs those whose label it knows
        let v : List (Occ PathId) := plants.flatMap fun pc => List.replicate pc.2 ((r, pc.1), [[0xFF]])
        let after := runFlat measuredL v
        let missed := (after.filter fun o => !chainValid o.2).length
        if missed == 0 then "all" else s!"missed:{missed}"
    | _, _ => "bad-op"
  | _ => "bad-op"

end Drv.Repair
