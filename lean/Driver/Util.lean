/- Line-protocol helpers for the model driver.  CORE LEAN ONLY. -/
namespace Drv

def words (s : String) : List String :=
  (s.splitOn " ").filter (fun w => w ≠ "")

def parseInt? (s : String) : Option Int := s.toInt?

def joinWith (sep : String) (l : List String) : String := sep.intercalate l

end Drv
