import Driver.Ring
import Driver.Shard
import Driver.Routing
import Driver.Tls
import Driver.Acl
import Driver.Translate
import Driver.NameMap
import Driver.Utf8
import Driver.Repair
import Driver.Forwarder
import Driver.MuxPool
import Driver.ConnMap
import Driver.Gossip
import Driver.Registry
/-
Model driver: reads the op lines a harness engine wrote (first line `engine <name>`), runs the
executable Lean model, prints one observation line per op line.  `/verif/check` diffs this
against the implementation's observations.
-/
open Drv

inductive St where
  | none
  | ring (s : Option S2S.Ring.Buf)
  | shard
  | observer (o : S2S.Observer.Obs)
  | routing (d : Drv.Routing.DSt)
  | tls
  | acl
  | translate
  | namemap
  | utf8
  | repair
  | forwarder (d : Drv.Forwarder.DSt)
  | muxpool (s : Drv.MuxPool.DSt)
  | connmap (s : Option S2S.ConnMap.St)
  | gossip (d : Drv.Gossip.DSt)
  | registry (d : Drv.Registry.DSt)

def initSt (engine : String) : Option St :=
  match engine with
  | "ring" => some (.ring Option.none)
  | "shard" => some .shard
  | "observer" => some (.observer {})
  | "routing" => some (.routing {})
  | "tls" => some .tls
  | "acl" => some .acl
  | "translate" => some .translate
  | "namemap" => some .namemap
  | "utf8" => some .utf8
  | "repair" => some .repair
  | "forwarder" => some (.forwarder {})
  | "muxpool" => some (.muxpool { d := S2S.MuxPool.Defects.fixed })
  | "muxpool-asis" => some (.muxpool { d := S2S.MuxPool.Defects.asIs })
  | "connmap" => some (.connmap Option.none)
  | "gossip" => some (.gossip {})
  | "registry" => some (.registry {})
  | "registry-asis" => some (.registry { cfg := S2S.Registry.Cfg.asIs })
  | _ => Option.none

def stepSt (st : St) (line : String) : St × String :=
  match st with
  | .none => (st, "bad-engine")
  | .ring s => let (s', o) := Drv.Ring.step s line; (.ring s', o)
  | .shard => (.shard, Drv.Shard.step line)
  | .observer ob => let (ob', o) := Drv.Observer.step ob line; (.observer ob', o)
  | .routing d => let (d', o) := Drv.Routing.step d line; (.routing d', o)
  | .tls => (.tls, Drv.Tls.step line)
  | .acl => (.acl, Drv.Acl.step line)
  | .translate => (.translate, Drv.Translate.step line)
  | .namemap => (.namemap, Drv.NameMap.step line)
  | .utf8 => (.utf8, Drv.Utf8.step line)
  | .repair => (.repair, Drv.Repair.step line)
  | .forwarder d => let (d', o) := Drv.Forwarder.step d line; (.forwarder d', o)
  | .muxpool s => let (s', o) := Drv.MuxPool.step s line; (.muxpool s', o)
  | .connmap s => let (s', o) := Drv.ConnMap.step s line; (.connmap s', o)
  | .gossip d => let (d', o) := Drv.Gossip.step d line; (.gossip d', o)
  | .registry d => let (d', o) := Drv.Registry.step d line; (.registry d', o)

partial def loop (h : IO.FS.Stream) (out : IO.FS.Stream) (st : St) : IO Unit := do
  let line ← h.getLine
  if line.isEmpty then return ()
  let line := (line.trimAsciiEnd.toString)
  if line.startsWith "#" then
    out.putStrLn "#"
    loop h out st
  else
    let (st', o) := stepSt st line
    out.putStrLn o
    loop h out st'

def main : IO Unit := do
  let stdin ← IO.getStdin
  let stdout ← IO.getStdout
  let first ← stdin.getLine
  let first := first.trimAsciiEnd.toString
  match Drv.words first with
  | ["engine", name] =>
    match initSt name with
    | some st =>
      stdout.putStrLn s!"engine {name}"
      loop stdin stdout st
    | Option.none => stdout.putStrLn "bad-engine"
  | _ => stdout.putStrLn "bad-header"
