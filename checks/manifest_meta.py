"""Human-written manifest text per property."""

HOOK_COMMITS = ['7959c84', '2245d3a', '4a48362', '0dcdeb5', '19f7951', '189a70e', '4ae8053', '2882d8c', '39a057c', 'f8f96ea']  # filled from `git -C /repo log --grep 'verif hooks'` below

NOTES = ("Technique family: machine-checked proof in Lean 4. Every check = lake build of the property's theorems (audited with #print axioms, "
         "no sorry/native_decide) + a correspondence run of the executable Lean model against the real Go code on the same op lines + a "
         "property monitor on the real code's traces. See DESIGN.md (section 10: as built, findings, seeded changes). fix: commits in /repo: f53f956 (C05), "
         "d411d81 (C20), 86baac2 (C01), 486249c (C19), 47b8cca (C12), 0c8aedd + 4cf9556 + 0317a97 (C08), fd5bf30 (C17), 2bb98c9 (C10), 9ffa6d6 (C09), "
         "bac8f7c (C13); recorded-not-repaired findings in known_findings.json (C04 x2, C08 x4, C09 x1).")

NOT_APPLICABLE = {}

BASE_NOTE = ("Trusted: Lean kernel; axioms propext/Classical.choice/Quot.sound only; the theorem statements; the Go harness (generators, "
             "canonicaliser) that ties the hand-written model to /repo by differential execution on every run. ")

META = {
    "C05": dict(
        text="Theorems for ALL capacities and ALL op histories (no bound): ring invariant, exact refinement of the physical ring to the history-defined "
             "outstanding list (growth/wrap/discard lose, duplicate, reorder nothing), AggregateUpTo = per-shard max over outstanding ids <= w, each shard "
             "once, count = outstanding slots <= w. Model tied to proxyIDRingBuffer by bounded-exhaustive + random differential runs of every op's "
             "return value and the ring's internal view. Composition with C01-C04 (Props/C05R): for every routing run, faults included, the abstract per-target ring of the routing "
             "model IS the C05 log of the ring operations that target performed (C05R_ring_is_log), its aggregate equals C05's expected values and count "
             "(C05R_aggregate_is_expected), and the PHYSICAL ring buffer of any initial capacity answers the same (C05R_physical_ring_agrees[_int64]) - so the "
             "routing theorems, proved over the abstract ring, hold for the machine that uses the real ring buffer.",
        design_ref="DESIGN.md §5 C05",
        note=BASE_NOTE + "Modelled not verified: int64 overflow of startProxyID+size (ids assumed < 2^62); Go slice/memory semantics.",
        technique="Lean 4 refinement proof (ring -> history-defined log) + model/implementation correspondence",
    ),
    "C07": dict(
        text="Theorems for ALL shard-count pairs with a*b < 2^31 and ALL LCM shard ids / ALL 32-bit hashes: LCM() is the mathematical lcm in both "
             "directions, mapShardIDUnique never panics, is single-valued, lands in 1..n and equals the owner of every workflow hashing to s; the "
             "stream the proxy opens carries s as initiator shard and the owner as server shard; DescribeCluster reports the LCM on both servers. "
             "Go int32 wrap-around and truncated division modelled exactly; tied to common.GCD/LCM, mapShardIDUnique and a real TCP "
             "ClusterConnection in LCM mode by differential runs.",
        design_ref="DESIGN.md §5 C07",
        note=BASE_NOTE + "Modelled not verified: Temporal's MapShardID/WorkflowIDToHistoryShard source (v1.31.2) re-stated in Lean and compared at run time; farmhash abstract.",
        technique="Lean 4 arithmetic theorems over an exact int32 model + model/implementation correspondence (incl. end-to-end proxy)",
    ),
    "C20": dict(
        text="Theorems for ALL header strings, modes and LCM parameters: ReportStreamValue is total, never panics, never leaves the lock held, never "
             "touches another index; an open ends served-or-rejected and leaves the observer usable (induction over any sequence of opens); "
             "well-formed opens afterwards are served. The pre-fix code is refuted by a kernel-checked witness (shard id 238609294). Tied to the "
             "real adminServiceProxyServer + ReplicationStreamObserver by boundary x key x mode differential runs with a wedge detector. Concurrency clause (Props/C20C): every ReportStreamValue runs under the grow lock, so concurrent streams' reports are a sequence of atomic steps in some order - proved: from any unlocked state every sequence completes and ends unlocked; the counters PrintActiveStreams shows are independent of the order (any permutation), a function of each stream's own reports alone, and empty when every opened stream has closed, whatever rejected reports are mixed in (the slice length may depend on the order: kernel-checked example). The engine stresses the real observer with concurrent open/close against growth.",
        design_ref="DESIGN.md §5 C20",
        note=BASE_NOTE + "Modelled not verified: the handler body once entered (that is C06/C01-C04), log.CapturePanic, Go's mutex/slices.Grow semantics.",
        technique="Lean 4 invariant proof (lock state, totality) + model/implementation correspondence with wedge detection",
    ),
    "C02": dict(
        text="Theorems over the fine-grained routing machine for ALL shard counts and ALL fault-free action lists (every interleaving): what a target "
             "stream received of a source is always a prefix of that source's tasks owned by the target, in source order (no duplicate, no reordering, no "
             "foreign shard), and equals it once nothing is in flight; ids on a source stream are distinct; every target stream is well-formed for "
             "Temporal's TrackTasks (ids strictly increase across messages, task-bearing highs exceed last id and all earlier highs). Model tied to the real "
             "sender/receiver/shard manager by step-for-step differential runs in synctest bubbles plus a direct monitor of the statement (real hash, payload equality).",
        design_ref="DESIGN.md §5 C02",
        note=BASE_NOTE + "Modelled not verified: gRPC/Go runtime scheduling (the harness explores it through synctest), farmhash (owner is a model input; the real hash is used by the harness monitor), Temporal's TrackTasks (its acceptance condition is restated as StreamWF).",
        technique="Lean 4 invariant proof over a fine-grained transition system (all interleavings) + model/implementation correspondence",
    ),
    "C19": dict(
        text="Decision-logic theorems for ALL configurations and credentials: with verification configured an admitted client/server chains to the configured CA "
             "(and matches the name), unloadable or CA-less bundles never yield an endpoint, skipVerify is the only relaxation; pre-fix RequireAnyClientCert "
             "refuted by a kernel-checked witness. Model tied to GetServerTLSConfig/GetClientTLSConfig field by field and to crypto/tls by the full cross "
             "product of real handshakes, including the TCP and mux listeners.",
        design_ref="DESIGN.md §5 C19",
        note=BASE_NOTE + "Modelled not verified: crypto/x509 chain building and crypto/tls itself (validated by the handshakes of each run).",
        technique="Lean 4 decision-logic theorems + exhaustive model/implementation correspondence by real TLS handshakes",
    ),
    "C01": dict(
        text="Theorem over the fine-grained routing machine for ALL source/target shard counts and ALL fault-free action lists, i.e. every batch shape and every "
             "interleaving of hand-offs, sends, target acks, ack forwarding and aggregation, with late or silent targets: at every step every ack sent "
             "upstream covers only tasks their owner target stream has acknowledged (inductive invariant over sender rings, channels, in-flight ack values "
             "and the seeded per-target map; ~1900 lines of Lean). The pre-fix receiver is refuted by a kernel-checked witness. Model tied to the real code "
             "by step-for-step differential runs under testing/synctest and a direct monitor of the statement.",
        design_ref="DESIGN.md §5 C01",
        note=BASE_NOTE + "Modelled not verified: gRPC/Go runtime (explored through synctest with fake streams), the proxy-id ring is the abstract log justified by C05's refinement theorem.",
        technique="Lean 4 inductive-invariant proof over a fine-grained transition system (all interleavings) + model/implementation correspondence",
    ),
    "C04": dict(
        text="The full statement (C01 with stream breaks and reconnections at any position) is FALSE of the current tree: two kernel-checked counterexample "
             "runs (target break loses in-flight tasks; source restart forgets per-target ack state) that the harness reproduces on the real code on every run "
             "and reports as KNOWN-FINDING; any other violation is a VIOLATION. PROVED for ALL shard counts and ALL action lists with breaks and re-opens at ANY "
             "position (C04_modulo_known_findings, ~1750 lines, generalised inductive invariant with ghost bookkeeping outside the machine): under the "
             "environment hypothesis EnvOKF (RecvOK per batch + a restarted source re-sends old tasks or sends tasks at/above every watermark it announced) "
             "every acknowledgement sent upstream covers only tasks that are confirmed by their target stream or out of reach in exactly one of the two recorded "
             "ways (handed to a target incarnation that broke since / also received by an earlier incarnation of the source stream) - i.e. the two findings are "
             "the ONLY ways a stream failure turns an unconfirmed task into an acknowledged one. Also proved: all fault-free runs. The model with fault actions "
             "is tied to the real code by differential runs with random breaks/reconnects.",
        design_ref="DESIGN.md §5 C04, §4",
        note=BASE_NOTE + "The property as stated is refuted (two recorded findings); what is proved is the property modulo exactly those findings, under EnvOKF. "
             "Attribution of harness violations to known findings is structural (see known_findings.json) and mirrors the theorem's Excused predicate.",
        technique="Lean 4 inductive-invariant proof over a fine-grained transition system with fault actions (all schedules, all crash points) + kernel-checked counterexamples + model/implementation correspondence with fault injection",
    ),
    "C03": dict(
        text="Safety theorem for ALL shard counts and ALL fault-free action lists: every ack sent upstream is >= every earlier ack on that stream and <= the "
             "last exclusive high received. Liveness theorem (no temporal logic, no bound): from EVERY reachable fault-free state with all target streams "
             "started - whatever is queued, however full slow targets' queues are, whichever targets never got a task - two fair rounds (source re-sends its "
             "final watermark H, queues drain, every target acknowledges what it received) end with the source's last ack equal to H; termination of the "
             "drain is proved with an explicit measure. ~3200 lines of Lean. Model tied to the real code by differential runs incl. the drain phase on the real code.",
        design_ref="DESIGN.md §5 C03",
        note=BASE_NOTE + "Not covered: real-time behaviour of the 1 s keep-alive tickers and back-off sleeps (virtual time in the harness), fair schedules that do not contain two such rounds.",
        technique="Lean 4 invariant proof + termination-measure liveness proof over a fine-grained transition system + model/implementation correspondence",
    ),
    "C15": dict(
        text="Decision-logic theorems for EVERY allow-list (any list of strings), method name and request: a non-listed admin method is refused (unary and "
             "streaming) and nothing behind the interceptor runs, RegisterNamespace/DeprecateNamespace are always refused under a policy, listed methods with "
             "allowed namespaces are forwarded, and only the inbound server carries the policy (same construction for TCP and mux). Model tied to the real code "
             "behaviourally: all 154 methods from the descriptors through running proxies over both transports, comparing the model's decision with the status "
             "code, and checking directly that a refused call never reaches the recording local cluster.",
        design_ref="DESIGN.md §5 C15",
        note=BASE_NOTE + "Modelled not verified: gRPC interceptor chaining, string prefix/suffix functions (executable, compared per method).",
        technique="Lean 4 decision-logic theorems + end-to-end model/implementation correspondence over TCP and mux",
    ),
    "C12": dict(
        text="Generic theorem (induction over structural paths of ANY length/nesting): if the finite coverage obligations hold for a type graph and the code's "
             "tables, the visitor translates the namespace name at the end of every well-formed path - through repeated fields, maps, oneofs, failure chains, "
             "links and serialized history-event blobs - and the skip shortcut never changes the result. The obligations are re-established on every run, by "
             "kernel evaluation, for facts REGENERATED from the source (981 struct types reachable from all 308 request/response types, tables read from the "
             "running code): so a new message type/field, a renamed Go field, an unrecognised event blob or a skippable event that can reach a namespace "
             "breaks a proof obligation. Correspondence on real messages built along every kind of path + independent reference translation as monitor. "
             "VALUE level (C12V): an executable Lean model of visitNamespace on whole message trees (structs in type-graph field order, lists, maps, oneof wrappers, "
             "decoded event blobs with a re-encoded mark, per-list skip shortcut incl. its Links rule, History recursion, NamespaceInfo by type), diffed with the real "
             "translator on dumped real messages; theorem: for every tree and every path realised in it, if the path model says `translates` then the string at "
             "that position of the translated tree is translateName m of the original - so the coverage theorem lifts from paths to values.",
        design_ref="DESIGN.md §5 C12",
        note=BASE_NOTE + "Trusted additionally: the translator go/eng/typegraph_test.go (reflection over the pinned generated structs; oracle from proto tags; reviewed non-event blob list). Modelled not verified: visit.Values' universal descent, protobuf codecs, the event serializer.",
        technique="Lean 4 generic path theorem + regenerated finite obligations (decide +kernel) + model/implementation correspondence",
    ),
    "C13": dict(
        text="Theorems for ALL mappings and names: exact-match lookup leaves unmapped names untouched, a name is mapped once (chains a->b,b->c), NewStaticBiMap "
             "succeeds exactly for one-to-one lists, round trip through a mapping and its inverse restores every name that is not an unmapped image, the two servers "
             "of a cluster connection use opposite maps so out-and-back restores the name; on the regenerated type graph every field the visitor can assign is a "
             "namespace-name field (finite obligation, kernel-evaluated). Tied to collect.NewStaticBiMap, the real translator and a running proxy pair. "
             "VALUE level (C13V), for ALL graphs/tables/mappings/trees of the value-level visitor model (diffed with the real translators on dumped real messages): "
             "blanking the namespace-name leaves makes an object and its translation identical (shape, every other scalar, keys, lengths, blob structure); no "
             "visited name in the mapping => the very same object, matched=false, no blob re-encoded; matched=false => unchanged; translating back with the inverse "
             "of a one-to-one mapping (not involving the empty name) restores every object whose visited names avoid the unmapped targets, same for "
             "search-attribute keys; Lean witness that the empty-name hypothesis is needed.",
        design_ref="DESIGN.md §5 C13",
        note=BASE_NOTE + "Modelled not verified: Go map semantics as association lists; 'every other field identical' is proved for the value-level MODEL of the visitor (C13V) and the model is tied to the Go reflection walk by differential testing on dumped real messages, not by proof about the Go library.",
        technique="Lean 4 algebraic/round-trip theorems + regenerated finite obligation + model/implementation correspondence (exhaustive bimap lists, end-to-end direction)",
    ),
    "C14": dict(
        text="Theorems for ALL mappings and key sets: every key goes through the exact-match mapping once, values and size untouched, distinct keys stay distinct "
             "under the property's no-collision hypothesis; the translator is off for WorkflowService and on for AdminService; on the regenerated type graph every "
             "search-attributes container sits in a field the visitor recognises (finite obligation). Tied to the real translator on every container path incl. blobs. "
             "VALUE level (C14V), for ALL graphs/tables/mappings/trees of the value-level model of visitSearchAttributes (diffed with the real translator on dumped "
             "real messages): under the explicit no-collision hypothesis the translated object IS the simultaneous renaming of the keys of every container the visitor "
             "reaches (typed, bare map, inside recognised blobs) - keys through translateName, entries keep their values, unmapped keys kept, nothing else differs, "
             "unmatched => unchanged; the collision case separately: the flag means two entries of one container get the same new key (Go then loses one, order-"
             "dependent), and it cannot happen for a one-to-one mapping on distinct keys avoiding the unmapped targets.",
        design_ref="DESIGN.md §5 C14",
        note=BASE_NOTE + "Modelled not verified: Go map iteration/rebuild (association lists; the collision case is explicit: model and real code are compared as `collision` = a rebuilt map lost an entry), payload bytes compared behaviourally (opaque tokens = hash of the deterministic encoding).",
        technique="Lean 4 key-rename theorems + regenerated finite obligation + model/implementation correspondence",
    ),
    "C16": dict(
        text="Theorems: for every policy, method of either service and request, a name outside the allow-list among the names the visitor sees => refused before the "
             "handler; the visitor sees the name at the end of EVERY structural path of the current tree (C12's coverage theorem over regenerated facts: translation "
             "and access matching are the same traversal); ListNamespaces keeps exactly the allowed names in order; the decision has no bypass-header input. Tied to "
             "the real interceptor on every kind of path with allowed/forbidden/empty names and combinations, and end to end with translation + bypass header. "
             "Value level (Props/C16V, over the value-tree model of the visitor): the inbound pipeline translate-then-check refuses every request tree holding a "
             "visited name that is not allowed, for both settings of the bypass header (C16V_forbidden_name_refused); the names the check sees after translation are "
             "exactly translateName of the original visited names, same order (C16V_names_checked_are_translated_names, for every mapping the start-up validation "
             "accepts), so the decision is a function of the original request (C16V_decision_on_original_request); unreadable requests are refused.",
        design_ref="DESIGN.md §5 C16",
        note=BASE_NOTE + "Shares C12's trusted translator. The end-to-end ordering translation -> ACL is observed on a running proxy, the interceptor chain itself is gRPC's.",
        technique="Lean 4 decision-logic theorems composed with C12's regenerated coverage theorem + model/implementation correspondence",
    ),
    "C17": {'text': "Theorems for ALL byte strings, chains and stage outcomes: the model of Go's table-driven decoder accepts exactly the concatenations of "
         "standard (RFC 3629) encodings of Unicode scalar values; Go's ToValidUTF8 (modelled from the go1.26 tables) returns valid input unchanged, "
         'always returns valid UTF-8, is idempotent, keeps valid prefixes verbatim, and - strongest form - for THE (proved unique) decomposition of '
         'the input into maximal valid segments and maximal runs of ill-formed bytes, outputs the valid segments in order with exactly one U+FFFD '
         'per run; repairInvalidUTF8InFailure on chains of length <= 10 makes every message valid, leaves valid ones and the length untouched, and '
         "reports an error beyond 10 (first ten still repaired); the codec's decision function is transparent when the delegate succeeds (repair "
         "path never entered) and returns success only after a fully successful repair, otherwise the delegate's error. History blobs "
         "(translateOneDataBlob): transparent on accepted blobs; the clause 'what cannot be repaired is reported as an error' is REFUTED for the "
         'PINNED code by a kernel-checked witness (invalid UTF-8 outside failure messages passed silently; reproduced on the real code and '
         "repaired by a fix: commit), and proved in full for the current code (BlobDefects.fixed, what the driver runs). Tied to the real code: exhaustive comparison with "
         "Go's functions, chains through the generated visitor, and the registered codec on legacy-schema wire bytes with an independent proto.Equal "
         'monitor.',
 'design_ref': 'DESIGN.md §5 C17',
 'note': 'Trusted: Lean kernel; axioms propext/Classical.choice/Quot.sound only; the theorem statements; the Go harness (generators, canonicaliser) '
         'that ties the hand-written model to /repo by differential execution on every run. Partial (C17_codec_faithful_partial): the protobuf wire '
         'format is not modelled - that the legacy re-encoding of the repaired message is the input with only the failure messages sanitised is the '
         'explicit round-trip hypothesis of C17_codec_faithful_of_roundtrip, validated by the harness (proto.Equal with the standard decode of a '
         "sanitised copy) rather than proved. Modelled not verified: protobuf-go, gogo/protobuf, Temporal's serializer.",
 'technique': "Lean 4 theorems over an exact model of Go's UTF-8 decoding + decision-logic theorems + model/implementation correspondence on "
              'legacy-schema wire bytes'},
    "C18": {'text': 'Generic theorems for ALL values (any list lengths, any number of failures at once, chains up to depth 10): a visitor driven by a set of '
         'structural path patterns repairs every failure whose pattern it knows, moves nothing else, and leaves a failure untouched exactly when its '
         'pattern is missing. Finite obligation regenerated from /repo on every check and discharged by decide +kernel per chunk: every structural '
         'path from every convertible root (and HistoryEvent, and every type with its own case) to a failure message - enumerated by reflection over '
         'the legacy structs - is a path at which the real RepairInvalidUTF8 was observed to repair invalid UTF-8, or a finding recorded in '
         'known_findings.json (none on the current tree, so C18_full holds by C18_full_iff_no_findings). Tied to the real code by exercising every '
         '(root, path) and random combinations, with an independent reflection walk as monitor.',
 'design_ref': 'DESIGN.md §5 C18',
 'note': 'Trusted: Lean kernel; axioms propext/Classical.choice/Quot.sound only; the theorem statements; the Go harness (generators, canonicaliser) '
         'that ties the hand-written model to /repo by differential execution on every run. Trusted in addition: the reflection walker that '
         'enumerates the oracle (go/eng/repairpaths_test.go) and the labelling of concrete failure positions by path ids (list indices / map keys '
         'abstracted to a wildcard). The generated Go visitor is not parsed: its pattern set is measured.',
 'technique': 'Lean 4 generic visitor theorems + regenerated finite obligation (decide +kernel) + exhaustive per-path measurement and random '
              'combination runs on the real code'},
    "C06": {'text': 'Theorems over a fine-grained machine of StreamForwarder.Run (handler, two relay loops, two startListener goroutines, the CloseSend '
         'goroutine, latch, contexts, 1 s guard) for ALL action lists = all message sequences in both directions, every ending kind (EOF, error, '
         'unknown kind, send failure, cancelled context, proxy shutdown) at every position, every interleaving: (a) what a peer received is always a '
         "prefix of what the other sent; (b) while a direction relays the account is exact (sent = received ++ at most two in the proxy's hands ++ "
         'still queued); (c) every internal action strictly decreases an explicit measure (every Go schedule terminates), a reachable quiescent '
         'state with an ending is Done (both loops finished, latch set, CloseSend attempted, outgoing context cancelled, handler returned, all six '
         'goroutines gone), hence every maximal schedule and the scheduler `settle` end together - under GrpcStreamEnv, WITHOUT assuming the source '
         'answers the half-close. Each hypothesis is shown necessary by a kernel-checked stuck-worker witness, incl. a latent leak of the CloseSend '
         'goroutine when the 1 s guard fires (reproduced on the real code). Model tied to the real handler by op-for-op differential runs in '
         'synctest bubbles, observing which goroutines are alive, plus a direct monitor of the statement.',
 'design_ref': 'DESIGN.md §5 C06, §3 GrpcStreamEnv',
 'note': 'Trusted: Lean kernel; axioms propext/Classical.choice/Quot.sound only; the theorem statements; the Go harness (generators, canonicaliser) '
         'that ties the hand-written model to /repo by differential execution on every run. Modelled not verified: gRPC stream semantics '
         "(GrpcStreamEnv, emulated by the fakes), Send never blocks indefinitely, ClusterConnection's shutdown wiring (lifetime -> client connection "
         "closed), Go's select/scheduler (explored through real concurrency inside the bubble, resolved by relay-count hints).",
 'technique': 'Lean 4 invariant + termination-measure proof over a fine-grained transition system (all interleavings, all ending positions) + '
              'model/implementation correspondence with goroutine-level observation'},
    "C10": {'text': 'Theorems over a fine-grained transition system of the provider loop (every branch of muxProvider.Start), AddConnection, '
         'waitAndCleanup/unregisterMux/AllowMoreConns, onClose and the environment, for EVERY pool size, both roles, EVERY action list (all '
         'interleavings and fault sequences), for the current tree and for the repaired one: conservation (free permits + in-flight attempt + '
         'slot-holding sessions + permits lost at exit = N) hence never more than N registered and never more than N live yamux sessions; every '
         'failure branch and every session death returns exactly one permit; progress: every benign continuation from every reachable live state '
         'terminates (explicit measure) and can only stop with N healthy sessions registered, and one exists. Shutdown: the full clause is FALSE of '
         'the PINNED tree (Defects.asIs) - three kernel-checked counterexamples (session handed to AddConnection after the lifetime ended; sessionFn error never '
         'closes the raw conn; provider returns on lifetime end before closing a session whose ping failed) that were reproduced on the real code and '
         'REPAIRED by a fix: commit (the driver now runs Defects.fixed = the current tree); proved: the clause in full for the current tree '
         '(C10_shutdown_fixed), for the pinned tree on every run without such an abandoning step (partial), and that every execution after Cancel is finite. Model tied to the real NewMuxProvider + NewCustomMultiMuxManager (fake '
         'connProvider, real yamux over net.Pipe, one synctest bubble, both roles) and to the real NewMuxReceiverProvider over loopback TCP by '
         'per-op differential runs.',
 'design_ref': 'DESIGN.md §5 C10, §4',
 'note': 'Trusted: Lean kernel; axioms propext/Classical.choice/Quot.sound only; the theorem statements; the Go harness (generators, canonicaliser) '
         'that ties the hand-written model to /repo by differential execution on every run. Partial: the shutdown clause is refuted for the current '
         'tree; the positive shutdown theorem is for runs without abandoning steps / for the repaired model (the proposed patch was validated '
         'against the repaired model on a patched copy, see FINDINGS). Modelled not verified: semaphore.Weighted, yamux (Close closes the conn, '
         "self-shutdown on peer loss, keep-alive), context propagation, the establisher's dial back-off; progress is for benign continuations, not "
         'arbitrary fair schedules.',
 'technique': 'Lean 4 invariant + termination-measure proofs over a fine-grained transition system, kernel-checked counterexamples, '
              'model/implementation correspondence under testing/synctest with fault injection'},
    "C11": {'text': 'Theorems for EVERY sequence of session additions, deaths, removals and cancellation (same slot re-used, rapid add/remove, the empty set): '
         "the client connection's map equals the session table (same keys, same session objects), the resolver's endpoints equal the table's keys, "
         'the map is nil iff the table is empty, keys are never reused, the dialer opens a stream exactly on the live session currently registered '
         'under the dialled key and refuses unknown keys, CanMakeCalls <=> lifetime live and table non-empty. Call-level clauses (served only by a '
         'registered live session, fail-over while one survives, Unavailable when none, resume after an add) are derived from this PLUS an explicit '
         "hypothesis structure for gRPC's balancer ('a ready endpoint of the current resolver state is picked iff one exists') - the balancer is "
         'modelled, not verified, and those theorems are named *_partial. Tied to the real MultiClientConn + multiMuxManager + real gRPC/yamux by '
         'exhaustive (<= 8 updates) and random add/remove/rpc/in-flight histories under testing/synctest.',
 'design_ref': 'DESIGN.md §5 C11',
 'note': 'Trusted: Lean kernel; axioms propext/Classical.choice/Quot.sound only; the theorem statements; the Go harness (generators, canonicaliser) '
         "that ties the hand-written model to /repo by differential execution on every run. Partial at call level: gRPC's "
         'round_robin/resolver/transport behaviour is an assumption (structure Balancer), validated on the real gRPC v1.80.0 by the engine on every '
         "run, not proved. The resolver's endpoint list is observed indirectly (which sessions the client connection holds transports on), not read "
         'from gRPC.',
 'technique': 'Lean 4 invariant proof (table = map = endpoints, exact dialer) + assumption-parametrised call-level theorems + model/implementation '
              'correspondence under testing/synctest'},
}


META["C09"] = {'design_ref': 'DESIGN.md §5 C09',
 'note': 'Trusted: Lean kernel; axioms propext/Classical.choice/Quot.sound only; the theorem statements; the Go harness (generators, canonicaliser) '
         'that ties the hand-written model to /repo by differential execution on every run. Partial: clause (a) exactly-one-owner and clause (b) are '
         'refuted at full strength for the pinned tree; (a) is proved for the current tree after fix 9ffa6d6, (b) is proved under an explicit decidable hypothesis and its refutation is a recorded finding. Modelled not verified: '
         'hashicorp/memberlist (the harness is the network; real memberlist is not started), gRPC between instances (the hand-off to the registered '
         'intra-proxy stream is the observation point), wall-clock skew between machines (single-clock assumption).',
 'technique': 'Lean 4 inductive-invariant proof over a fine-grained transition system (all schedules) + kernel-checked counterexamples + '
              'model/implementation correspondence on real shard managers',
 'text': 'Theorems over a fine-grained gossip machine for ANY number of instances and shards and EVERY action list (all orders, delays, duplications '
         'of register / unregister announcements and full-state merges, leaves at any point): a holder is never older than a claim whose '
         "announcement reached it, so only a newest claimant can remain (proved, inductive invariant); 'exactly the newest claimant remains' is "
         'PROVED for the current tree (C09_exactly_one_owner_fixed: announcements carry Created); it was FALSE of the pinned tree (kernel-checked '
         'witness: two claims within one broadcast latency evicted each other because the announcement carried the broadcast time - reproduced on '
         'the real code incl. through two real proxyStreamSender streams, repaired by fix commit 9ffa6d6; for that model the clause is proved under '
         'the decidable disjoint-windows hypothesis); after NotifyLeave a node stays absent '
         "until one of its snapshots is merged (proved), 'departed own nothing' is FALSE when a snapshot is still in flight (witness, "
         'KNOWN-FINDING), proved otherwise; routing clause as decision-logic theorems over every input of DeliverMessagesToShardOwner / '
         'DeliverAckToShardOwner (true iff handed to exactly one of local stream / known remote owner, never both, false = nobody); '
         'ReconcilePeerStreams desired sets = cross-cluster pairs and their inverses, nothing else survives. Model tied to 2-3 real '
         'shardManagerImpls per schedule (exhaustive interleavings + random) step by step, to the real delivery functions over the full cross '
         'product (real gRPC receiver for acks), and to the real ReconcilePeerStreams with real gRPC peers.'}


META["C08"] = {'design_ref': 'DESIGN.md §5 C08',
 'note': 'Trusted: Lean kernel; axioms propext/Classical.choice/Quot.sound only; the theorem statements; the Go harness (generators, canonicaliser) '
         "that ties the hand-written model to /repo by differential execution on every run. Modelled not verified: Go's scheduler (explored through "
         '17 schedule points per stream: 4 verifPoint hooks + 13 log statements), gRPC stream cancellation/half-close (GrpcStreamEnv), time.Now() '
         'resolution (distinct stamps are a hypothesis), memberlist announcements as a replay trigger (in the model, not driven on the real code).',
 'technique': 'Lean 4 invariant proofs over a fine-grained transition system (all interleavings) + kernel-checked refutations + '
              'deterministic-scheduler correspondence with the real code',
 'text': 'Theorems over a fine-grained transition system (one atomic step of one goroutine per action; any number of shards and incarnations, EVERY '
         'interleaving): the identity-checked registries (send and ack channels) never keep or lose a foreign entry, and no send reaches a closed '
         'channel outside recover - both without any hypothesis; under explicit decidable hypotheses, each excluding one interleaving window, every '
         'clean-up removes only its own entries (StampsOK, RecvOK), nothing remains once all streams ended (RecvOK, OpenOK) and at quiescence every '
         'registry holds exactly the newest live incarnation (StampsOK, RecvOK, OpenOK, OrderOK) - all proved by induction over ~25 invariants, no '
         'sorry. The full statement is refuted for the current tree by four kernel-checked witnesses (each shown to violate exactly one hypothesis), '
         'all replayed deterministically on the real code on every run (known findings C08-*); three repaired defects (unconditional receiver '
         'clean-up 0c8aedd, second delete in UnregisterShard, replay send without recover) are refuted for their before-fix configurations and shown '
         'harmless on the current one. Model tied to the real shard manager + routing servers by a deterministic point-level scheduler inside '
         'synctest bubbles.'}
