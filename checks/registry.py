"""Per-property configuration for /verif/check."""

ROUTING_RULE = ("traces of routing-mode ops (opensrc/opentgt/batch/ack/gate/breaktgt/breaksrc) generated online against the real "
                "adminServiceProxyServer + proxyStreamSender/Receiver + shardManagerImpl inside a testing/synctest bubble (fake gRPC streams, virtual time), "
                "one op = one environment action run to quiescence + 1.3 s virtual sleep; 1-3 source shards x 1-4 target shards, owners by the real hash; "
                "every op's emitted messages (proxy id:original id/high), upstream acks and channel lengths are compared with the Lean model's big-step run; "
                "the observed per-target enqueue order is passed to the model as a scheduling hint. A trace is non-trivial when it has more than 6 ops; distinct by op list.")
ROUTING_ASSUMPTIONS = ["TemporalSourceWF (EnvOK): per source stream task ids strictly increase, ids >= previous exclusive high, high > ids, highs non-decreasing (Temporal v1.31.2 stream_sender.go)",
                       "single proxy instance (memberlist off); the intra-proxy hop is C09",
                       "fakes: cancelling a stream context makes Recv fail; the source answers CloseSend with EOF (GrpcStreamEnv)",
                       "keep-alive re-sends are recognised (empty message with unchanged high during the sleep window / repeated ack value) and checked for idempotence, not modelled step by step"]

PROPS = {
    "C05": dict(
        engine="TestC05",
        lean_modules=["S2S.Props.C05", "S2S.Props.C05R"],
        required_theorems=["C05_wf", "C05_aggregate_exact", "C05_aggregate_nodup", "C05_aggregate_count", "C05_contents_exact", "C05R_ops_are_good", "C05R_ring_is_log", "C05R_aggregate_is_expected", "C05R_physical_ring_agrees", "C05R_physical_ring_agrees_int64"],
        rule="histories of ring ops (new/app/agg/dis): bounded-exhaustive over capacities 1..3 with contiguous and gapped ids, then random "
             "histories (capacities 1..1024, wrap-around, several doublings, watermarks below/inside/above the range, extreme watermarks, "
             "a hypothesis-violating stream with non-increasing ids and (0,0) shards). A history is non-trivial when it has a gapped append or an "
             "aggregate returning at least one shard; distinct by the hash of its op list.",
        assumptions=["proxy ids and original ids stay inside the int64 range (|id| < 2^62) so startProxyID+size does not wrap; "
                     "AggregateUpTo's own subtraction is modelled with exact two's-complement wrap"],
    ),
    "C07": dict(
        engine="TestC07",
        lean_modules=["S2S.Props.C07"],
        required_theorems=["C07_lcm_correct", "C07_lcm_symmetric", "C07_map_single_owner", "C07_hash_consistent", "C07_forward_metadata", "C07_describe_both_directions"],
        rule="GCD/LCM for all pairs in [-2,bound]^2 plus composites/powers of two to 16384 and int32-overflow boundary pairs; mapShardIDUnique for "
             "every LCM shard id (small pairs) or boundary+random ids (large pairs) and arbitrary (src,tgt,id) triples incl. panicking ones; "
             "real-hash consistency samples; DescribeCluster and stream-open metadata through a real TCP ClusterConnection in LCM mode in both "
             "directions with/without the bypass header. Non-trivial = supported pair (a,b>=1) or an end-to-end stream case; distinct by input.",
        assumptions=["Temporal's MapShardID and WorkflowIDToHistoryShard are modelled from go.temporal.io/server v1.31.2 source and compared at run time",
                     "farm.Fingerprint32 is an arbitrary 32-bit hash in the theorem (the real hash is sampled by the harness)"],
        timeout={"quick": 900, "thorough": 3600},
    ),
    "C20": dict(
        engine="TestC20",
        lean_modules=["S2S.Props.C20", "S2S.Props.C20C"],
        required_theorems=["C20_open_never_wedges", "C20_report_total", "C20_others_unchanged", "C20_refuted_before_fix", "C20C_never_blocks", "C20C_counters_order_independent", "C20C_balanced_ends_empty", "C20C_per_stream_projection"],
        rule="stream opens through the real adminServiceProxyServer + real ReplicationStreamObserver: boundary ids x four metadata keys x three "
             "stream modes, each followed by a well-formed open that must be served; random int32/int64/garbage strings. Non-trivial = id outside "
             "[1,1024] or malformed; distinct by (mode,metadata).",
        assumptions=["the handler body (forwarder / routing workers) is modelled as 'served' once entered; its own behaviour is C06/C01-C04",
                     "log.CapturePanic converts a panic in the handler goroutine into a returned error (temporal server v1.31.2)"],
    ),
    "C02": dict(
        engine="TestC02",
        lean_modules=["S2S.Props.C02"],
        required_theorems=["C02_delivery_prefix", "C02_delivery_complete", "C02_sent_ids_distinct", "C02_stream_wellformed", "C02_payload_positions"],
        rule=ROUTING_RULE + " Focus C02: targets that connect after tasks for them arrived (retry loop), several sources feeding one target, "
             "multi/single/empty batches, replayed watermarks; monitor: once-only delivery to the owner computed with the real farmhash, payload "
             "proto.Equal modulo id fields, per-stream id/high well-formedness.",
        assumptions=ROUTING_ASSUMPTIONS,
        timeout={"quick": 1200, "thorough": 7200},
    ),
    "C19": dict(
        engine="TestC19",
        lean_modules=["S2S.Props.C19"],
        required_theorems=["C19_server_admits_only_ca_peers", "C19_client_admits_only_ca_servers", "C19_bad_ca_bundle_fails_closed", "C19_only_skip_relaxes", "C19_refuted_before_fix"],
        rule="full cross product: 32 configurations (own cert x server name x CA file good/no-CA-cert/unreadable/unset x skip) x 7 peer credentials "
             "(valid chain, wrong name, self-signed, other CA, expired, wrong usage, none; the client always sends its certificate) x both roles, "
             "assembled tls.Config fields compared with the model and admission decided by real crypto/tls handshakes (net.Pipe), plus the real TCP "
             "(ClusterConnection inbound server) and mux (NewMuxReceiverProvider) listeners for every credential. Every case is distinct and non-trivial.",
        assumptions=["X.509 path validation (crypto/x509) is an abstract verdict per credential class; crypto/tls admission per ClientAuth mode is a decision "
                     "model validated by the handshakes of this run", "client role without a CA file falls back to the host's system roots (documented behaviour, modelled as 'not the configured CA')"],
    ),
    "C01": dict(
        engine="TestC01",
        lean_modules=["S2S.Props.C01", "S2S.Props.C03S", "S2S.Props.C03F"],
        required_theorems=["C01_never_acks_unconfirmed", "C01_refuted_before_fix", "C03S_acks_history_grows", "C03S_late_ack_still_safe",
                           "C03S_visible_prefix_monotone_bounded", "C03S_late_ack_safe_modulo_known",
                           "C03F_incarnation_monotone", "C03F_incarnation_bounded", "C03F_refuted_after_source_restart",
                           "C03F_incarnation_one_descent", "C03F_history_bounded_maxHigh"],
        rule=ROUTING_RULE + " Focus C01: 2-4 targets, prompt / lagging / silent targets (acks at the last high, at earlier highs, at ids inside a batch, "
             "or never), gated (slow) targets; monitor: every upstream ack a vs every received task id < a confirmed by its owner target's own acks.",
        assumptions=ROUTING_ASSUMPTIONS,
        timeout={"quick": 1200, "thorough": 7200},
    ),
    "C04": dict(
        engine="TestC04",
        lean_modules=["S2S.Props.C04", "S2S.Props.C04T"],
        required_theorems=["C04_refuted_target_break", "C04_refuted_source_restart", "C04_refuted", "C04_partial_fault_free", "C04_modulo_known_findings",
                           "C04T_modulo_known_findings_tight", "C04T_tight_implies_loose", "C04T_env_iff"],
        rule=ROUTING_RULE + " Focus C04: 1-4 faults per trace (target-stream break, source-stream break, reconnect immediately or late) at random op "
             "boundaries, with gated targets so that queued and in-hand messages die with the stream; monitor: C01's statement with confirmation by any "
             "incarnation; violations are attributed to a known finding only by the structural rule recorded in known_findings.json, which is `ExcusedT` of "
             "Spec/RoutingFaultsTight.lean: (a) the task was lost with a broken target stream AND a later stream of that target has taken something of the same "
             "source above it; (b) the task was also received by an earlier incarnation of the source stream.",
        assumptions=ROUTING_ASSUMPTIONS + ["after a source-stream restart the source resumes from the last acknowledgement it received"],
        timeout={"quick": 1200, "thorough": 7200},
    ),
    "C03": dict(
        engine="TestC03",
        lean_modules=["S2S.Props.C03", "S2S.Props.C03V"],
        required_theorems=["C03_acks_monotone_bounded", "C03_eventually_complete", "C03V_visible_prefix_monotone_bounded"],
        rule=ROUTING_RULE + " Focus C03: slow (gated) targets flooded with >100 watermarks so that the 100-slot queue fills and broadcasts are dropped, "
             "targets that never get a task, late targets; every fault-free trace ends with a drain phase (gates opened, all targets opened, two fair "
             "rounds: final watermark re-sent, every target acks everything it received) after which the last upstream ack must equal the final high watermark. "
             "A quarter as many additional traces (C03 and C01) have SLOW SOURCES (op `sgate`: the source cluster stops reading anything new, so the "
             "receiver's Send of an acknowledgement blocks half-way through the step the model treats as atomic; a repeated watermark = keep-alive still "
             "passes). The model driver runs them with the blocked receiver's `rack` disabled and the held acknowledgement hidden until the gate opens "
             "(still a run of `step`; what the source sees is a prefix of `acksSent`, which is what the C03S theorems judge). C03 additionally runs a "
             "fifth as many traces WITH target-stream failures (no source restarts, no drain): monotone and bounded on every source stream that has "
             "never been broken (theorems C03F_*, checked with C01).",
        assumptions=ROUTING_ASSUMPTIONS + ["liveness is the 'two fair rounds' reading: the source re-sends its final watermark and every target acknowledges what it received, twice; real-time tickers are not modelled"],
        timeout={"quick": 1200, "thorough": 7200},
    ),
    "C15": dict(
        engine="TestC15",
        lean_modules=["S2S.Props.C15"],
        required_theorems=["C15_unlisted_admin_denied", "C15_namespace_lifecycle_denied", "C15_allowed_forwarded", "C15_wiring"],
        rule="every method of AdminService (45) and WorkflowService (109), enumerated from the service descriptors at run time, called through a real running "
             "ClusterConnection (generic gRPC invoke / stream open, empty requests) on the inbound and the outbound server, over TCP and over a mux (yamux) "
             "transport, with/without the translation-bypass header, for allow-lists: no policy, empty (= unrestricted), singletons, non-existent name, random "
             "subsets; outcome = (PermissionDenied?, did the recording local cluster see the call). Distinct by (transport, server, policy, method).",
        assumptions=["method classification (two prefix tests + suffix after last '/') is executable model code compared at run time; theorems are over the classified form",
                     "gRPC delivers PermissionDenied from an interceptor without invoking the handler (observed: the backend records no call)"],
        timeout={"quick": 900, "thorough": 3600},
    ),
    "C12": dict(
        engine="TestC12",
        extract="typegraph",
        lean_modules=["S2S.Props.C12", "S2S.Props.C12V"],
        required_theorems=["C12_paths_translated_of_covers", "C12_current_tree_covers", "C12_every_path_translated", "C12_shortcuts_never_change_the_result",
                           "C12_leaf_values_translated", "C12_every_realised_leaf_translated"],
        rule="(1) translator: the Go type graph of all 308 request/response types of both services as the reflective visitor walks it (981 struct types), the "
             "namespace-name oracle bit per field from the proto tags, and the code's tables read from the running binary are regenerated into Lean and the "
             "coverage obligations re-checked by kernel evaluation; (2) correspondence: for every root type, structural paths to namespace-name leaves (every "
             "distinct leaf field x depth x blob-crossing at least once, plus a seeded sample; recursion bound 1 quick / 2 thorough) are turned into real "
             "messages by reflection (events serialized into real history blobs with consistent event types), run through the real NamespaceNameTranslator, "
             "and the leaf outcome compared with the Lean path-level visitor model over the regenerated graph; (3) monitor: every message, plus random "
             "fully-populated messages of every root type (names incl. prefixes/substrings/chains a->b->c/empty), is compared with an independent "
             "descriptor-driven reference translation (proto.Equal after canonical re-serialization of event blobs). Distinct by path. "
             "(4) VALUE level (ops `valns`, go/eng/valtree_test.go): random filled messages of every root type, path-built messages with batch context and "
             "hand-made corner cases are dumped as one-line trees by reflection in type-graph field order (blobs decoded with the real serializer), run through "
             "the real NamespaceNameTranslator, dumped again (+ matched, + which blob objects were replaced) and compared with the Lean value-level model "
             "S2S/Model/TranslateVal.lean run by the driver on the same tree; C12V connects that model to the path model.",
        assumptions=["value level: messages carry no unknown fields (visit.Values' seen-set keys nil slices/maps by pointer 0; the message's own nil unknownFields is visited first, so later nil values never reach the callback); blobs are proto3-encoded; values are trees (no shared pointers)",
                     "namespace-name oracle: singular string fields whose proto name is `namespace` or ends in `_namespace`, and NamespaceInfo.name",
                     "DataBlob fields not holding history events are a reviewed list in the translator (AddTasksRequest.Task.blob, HistoryTask.blob, Chasm*.data, ReplicationTask.data); any new DataBlob field fails the obligation until reviewed",
                     "protobuf codecs / serialization.Serializer / github.com/keilerkonzept/visit are modelled (universal descent into exported fields), validated by the correspondence"],
        timeout={"quick": 900, "thorough": 3600},
    ),
    "C13": dict(
        engine="TestC13",
        extract="typegraph",
        lean_modules=["S2S.Props.C13", "S2S.Props.C13V"],
        required_theorems=["C13_unmapped_untouched", "C13_single_application", "C13_bimap_rejects_exactly_non_injective", "C13_roundtrip", "C13_direction_roundtrip", "C13_only_namespace_fields_assigned",
                           "C13_only_names_change", "C13_nothing_to_map_is_identity", "C13_unmatched_is_unchanged", "C13_round_trip", "C13_round_trip_of_accepted_config", "C13_sa_round_trip", "C13_round_trip_needs_nonempty", "C13_applied_twice_is_not_once", "C13_applied_twice_is_once_when_disjoint"],
        rule="NewStaticBiMap on EVERY pair list up to length 3 (quick) / 4 (thorough) over a 4-name alphabet (all non-injective lists included) + start-up of real "
             "cluster connections with (non-)injective mappings; exact-match lookups and round trips through the real translator for names incl. prefixes, "
             "substrings, case variants, empty, chains a->b,b->c and swaps; direction observed end to end through a running proxy pair on both servers with and "
             "without the bypass header (name seen by the backend / by the caller); random fully-populated messages of every root type translated and translated "
             "back with the inverse (must be identical). 'touches nothing else' is additionally monitored in C12's engine against the independent reference. "
             "Non-trivial = non-injective list, or a lookup/direction case; distinct by op. VALUE level (ops `valns` / `valsa`, go/eng/valtree_test.go): corner "
             "cases (identity entries, chains, swaps, the empty name as source/target, look-alike names, nil vs empty maps, nil SearchAttributes, empty/zero-event/"
             "nil blobs, skippable events with (empty) link namespaces, History vs blob batches, ListWorkflowExecutionsResponse, undecodable blob, unhandled "
             "SearchAttributes types, colliding keys) and random filled messages of every root type (a mapping with a swap; a mapping that maps nothing; the "
             "overlapping search-attribute mapping) through the REAL translators, whole result tree + matched + replaced-blob marks compared with the Lean "
             "value-level model, for which C13V proves only-names-change / identity / round trip.",
        assumptions=["value level: messages carry no unknown fields; blobs are proto3-encoded; values are trees (see C12)",
                     "C13_round_trip needs a mapping that does not involve the empty name: with a -> \"\" a link namespace inside a skippable event is translated to \"\" and is then invisible to the shortcut's Links rule on the way back (Lean witness C13_round_trip_needs_nonempty; reproduced on the real code by the valns corner cases)",
                     "a name that is an unmapped image of the mapping (in ran m but not dom m) cannot round-trip: excluded explicitly by the theorem's hypothesis and exercised (reported) by the engine"],
        timeout={"quick": 900, "thorough": 3600},
    ),
    "C14": dict(
        engine="TestC14",
        extract="typegraph",
        lean_modules=["S2S.Props.C14", "S2S.Props.C14V"],
        required_theorems=["C14_keys_renamed_values_untouched", "C14_no_key_lost", "C14_workflow_service_excluded", "C14_every_container_found",
                           "C14_container_keys", "C14_container_values", "C14_unmatched_is_unchanged", "C14_collision_means_two_entries_one_key", "C14_no_collision_for_bimap"],
        rule="every structural path to a search-attributes container (typed SearchAttributes and bare map<string,Payload>) in AdminService messages incl. inside "
             "history-event blobs, built as real messages with random key sets that do not collide with mapping targets, through the real "
             "NewSearchAttributeTranslator: keys compared with the model, payload bytes checked untouched, whole message compared with the reference; the method "
             "filter for all 154 methods; random AdminService messages vs the reference. Distinct by path. VALUE level (ops `valsa`, go/eng/valtree_test.go): "
             "corner cases (typed container / bare map / inside blobs / History, nil vs empty maps, nil SearchAttributes, identity entries, chains, swaps, "
             "COLLIDING keys, unhandled types), random AdminService messages and path-built messages with batch context through the real "
             "NewSearchAttributeTranslator; whole result tree + matched (or `error` / `collision` = a rebuilt map lost an entry) compared with the Lean "
             "value-level model, for which C14V proves the simultaneous-renaming law.",
        assumptions=["single-namespace mapping (the code's documented limitation)", "fields named SearchAttributes of other types (AddSearchAttributesRequest, RemoveSearchAttributesRequest) make the visitor return an error that is only logged: counted, outside the property"],
        timeout={"quick": 900, "thorough": 3600},
    ),
    "C16": dict(
        engine="TestC16",
        extract="typegraph",
        lean_modules=["S2S.Props.C16", "S2S.Props.C16V"],
        required_theorems=["C16_forbidden_namespace_denied", "C16_allowed_namespaces_pass", "C16_list_namespaces_filtered", "C16_every_namespace_field_is_seen", "C16_unreadable_request_denied", "C16V_forbidden_name_refused", "C16V_names_checked_are_translated_names", "C16V_all_allowed_forwarded", "C16V_unreadable_refused", "C16V_decision_on_original_request"],
        rule="for every root type of both services and every kind of structural path to a namespace field (incl. inside history blobs), real messages with an "
             "allowed / forbidden / empty name at that path, and combinations (allowed on one path + forbidden on another), through the real "
             "AccessControlInterceptor.Intercept with a recording handler: decision compared with the model given every namespace value of the message "
             "(descriptor oracle) and with the path-level visitor model; ListNamespaces filter through the real workflow-service proxy server; end-to-end cases "
             "through a running proxy with translation + policy, with and without the bypass header. Distinct by (path, name).",
        assumptions=["the code refuses empty names under a non-empty allow-list (stricter than required; modelled as is); an empty Link.WorkflowEvent.namespace inside an otherwise skippable event is not offered to the matcher - not compared, outside the property"],
        timeout={"quick": 900, "thorough": 3600},
    ),
    "C17": {'engine': 'TestC17',
 'lean_modules': ['S2S.Props.C17'],
 'required_theorems': ['C17_valid_iff_standard_utf8',
                       'C17_output_is_standard_utf8',
                       'C17_valid_unchanged',
                       'C17_output_valid',
                       'C17_idempotent',
                       'C17_valid_prefix_kept',
                       'C17_bad_run_one_replacement',
                       'C17_decomposition',
                       'C17_decomposition_exists_unique',
                       'C17_chain_within_bound',
                       'C17_chain_beyond_bound',
                       'C17_chain_state',
                       'C17_codec_transparent',
                       'C17_codec_repair_entered_iff',
                       'C17_codec_no_corruption',
                       'C17_codec_error_is_delegates',
                       'C17_codec_faithful_partial',
                       'C17_codec_faithful_of_roundtrip',
                       'C17_blob_transparent',
                       'C17_blob_changed_only_by_full_repair',
                       'C17_blob_unrepairable_reported_refuted',
                       'C17_blob_unrepairable_reported_partial',
                       'C17_blob_unrepairable_reported_fixed'],
 'rule': "(a) Go's utf8.ValidString / strings.ToValidUTF8(s, U+FFFD) vs the model on ALL byte strings of length <= 2, a 29^3 boundary-byte slice of "
         'length 3 (thorough: ALL 2^24 strings of length 3), boundary slices of length 4-5 and 10^4 (thorough 10^6) structured random strings (valid '
         'runes at every size boundary, truncated sequences, overlongs, surrogates, > U+10FFFF, stray continuations, FE/FF, embedded U+FFFD); (b) '
         'failure chains of depth 0..12 with invalid bytes at every position through the real generated compat.RepairInvalidUTF8 inside 7 kinds of '
         'legacy carrier messages (every failure path of HistoryEvent, StreamWorkflowReplicationMessagesResponse, PollWorkflowTaskQueueResponse, '
         '...); (c) the real registered gRPC codec (compat.GetCodec().Unmarshal) on wire bytes marshalled from LEGACY gogo messages (proto/1_22) of '
         'every convertible request/response type (172; 21 carry failures): random valid messages, invalid UTF-8 in 1-3 failure chains (lists/maps '
         'with several elements, every oneof branch), chains of depth 9/10/11/12, invalid UTF-8 in other string fields, truncated / byte-garbled / '
         'bit-flipped encodings, non-Marshaler and non-convertible types. The op line carries the stage outcomes determined by the harness with '
         "independent means (standard codec, gogo codec, its own reflection walker restating 'repair'); the Lean decision function predicts the "
         "codec's result, error stage (read from the codec's logger) and whether the repair path ran. Monitor (no model): accepted by the standard "
         'codec => proto.Equal to the standard result and repair never ran; success after rejection => proto.Equal to the standard decode of the '
         'harness-sanitised copy and no invalid string left; repairable => no error. (d) history blobs: batches of 1-4 legacy HistoryEvents '
         'serialised with the legacy serializer, driven through the exported namespace translator on GetWorkflowExecutionRawHistoryV2Response (same '
         'kinds of corruption; namespace matches present/absent); the Lean blobTranslate predicts result/matched/log line; monitor: accepted blobs '
         'are only translated, repairable ones decode to the translated standard decode of the sanitised copy, and a rejected blob never passes '
         'without an error (this monitor found the since-repaired finding C17-blob-unrepairable-passed-silently). Non-trivial = input with invalid UTF-8 somewhere; distinct '
         'by input bytes.',
 'assumptions': ['protobuf-go, gogo/protobuf and the legacy round trip are libraries: modelled as stage outcomes, validated on every run '
                 '(proto.Equal against the sanitised copy)',
                 "an 'older server' message is a message marshalled by the proto/1_22 gogo types",
                 'the conversion tables are unexported: convertibility is restated (service request/response type with a registered legacy '
                 'counterpart) and compared with what the real codec logs'],
 'timeout': {'quick': 900, 'thorough': 7200}},
    "C18": {'engine': 'TestC18',
 'extract': 'typegraph,repairpaths',
 'lean_modules': ['S2S.Props.C18'],
 'required_theorems': ['C18_visitor_is_pointwise',
                       'C18_visitor_repairs_everything',
                       'C18_visitor_misses_unknown_patterns',
                       'C18_oracle_covered',
                       'C18_oracle_exhaustive',
                       'C18_known_missed_genuine',
                       'C18_full_iff_no_findings',
                       'C18_every_root_reaches_and_is_handled',
                       'C18_all_at_once'],
 'rule': 'roots = every AdminService/WorkflowService request/response type the real codec can down-convert (convertibility measured through '
         'compat.GetCodec() on bytes with 0xFF in a string field) that reaches a failure, plus legacy HistoryEvent (history blobs), plus every other '
         'type of their struct graph with a case of its own in the generated switch; ORACLE = all structural paths root -> failure.v1.Failure by Go '
         'reflection over the proto/1_22 gogo structs (pointer, repeated, map, every oneof wrapper from XXX_OneofWrappers; Failure.Cause cut; other '
         'type recursion bounded at 2 unrollings - none occurs). Every (root, path) is exercised on the real compat.RepairInvalidUTF8 bare and '
         'inside a randomly filled message (op path/pathf); for the 21 service roots the same message is also marshalled with the legacy schema and '
         'decoded by the real registered codec into the CURRENT type (op wire: must be ok-repaired, proto.Equal to the standard decode of the '
         'sanitised copy, no invalid string left); then random multi-path values: 2-6 failures invalid at once, lists/maps with up to 3 elements, '
         'chains of depth 1-10 with invalid bytes at random positions (op multi). The extraction step measures the same thing and regenerates the '
         'Lean facts; the Lean driver predicts each op from the measured set. Monitor: after the call every Failure.Message reachable by an '
         'independent reflection walk (any field, list, map, oneof; causes to depth 10) must be valid; a miss is reported with root, path and replay '
         'op, tagged C18-missed-path-<root>-<path>. Exhaustive over (root, path); distinct by op.',
 'assumptions': ['the oracle is computed over the Go structs of /repo/proto/1_22 (what an older server can send), not over the current API',
                 "the conversion tables are unexported: the set of convertible roots is measured through the real codec's log line ('could not "
                 "convert ...')",
                 'chains deeper than 10 are C17(ii) (reported as an error), not a missed path'],
 'timeout': {'quick': 900, 'thorough': 3600}},
    "C06": {'engine': 'TestC06',
 'lean_modules': ['S2S.Props.C06'],
 'required_theorems': ['C06_relay_prefix',
                       'C06_relay_exact_while_running',
                       'C06_relay_exact_until_latch',
                       'C06_every_schedule_terminates',
                       'C06_quiescent_ended_is_done',
                       'C06_every_schedule_ends_together',
                       'C06_ends_together',
                       'C06_settle_is_run',
                       'C06_stuck_without_handler_return_cancel',
                       'C06_stuck_without_ctx_cancel',
                       'C06_closeSend_guard_leak',
                       'C06_shutdown_needs_conn_close',
                       'C06_stuck_behind_blocked_send', 'C06_stuck_behind_blocked_send_i', 'C06_unstall_resumes',
                       'C06_cancel_unblocks_blocked_send', 'C06_quiescent_ended_done_iff_not_blocked', 'C06_cancel_ends_together_even_stalled'],
 'rule': 'traces of pass-through stream ops against the real adminServiceProxyServer.StreamWorkflowReplicationMessages -> handleStream -> '
         'StreamForwarder.Run (default mode and LCM mode with valid shard ids) inside a testing/synctest bubble with queue-based fake source '
         '(AdminServiceClient + client stream) and initiator (server stream): one op line = a burst of events (src msg/eof/err/unknown, ini '
         'ack/eof/err/cancel/unknown, srcsendfail, inisendfail, shutdown) applied atomically behind a gate, then quiescence; `tick` = 1.1 s of '
         'virtual time (the 1 s CloseSend guard). Exhaustive: 10 ending kinds x every position (i,j) of 3+3 (thorough 4+4) messages x both '
         'interleaving orders x stepwise and as one concurrent burst (repeated) x 4 stream configurations (default/LCM, source answers / ignores the '
         'half-close); then random traces (to 40 / thorough 200 messages) with random bursts and endings inside bursts. Every op compares with the '
         'Lean model: ids newly received by each side, CloseSend attempted, client context cancelled, handler returned and WHICH handler goroutines '
         'are alive (runtime.Stack, s2s-proxy/proxy frames of this bubble: H, FA, FR, LS, LT, CS); the per-op relay counts are passed to the model '
         'as a scheduling hint (Go select). Monitor: prefix + proto.Equal payloads, completeness while nothing ended, one-sided bursts fully relayed '
         'before their ending, after any ending: returned, CloseSend attempted, context cancelled, no goroutine left; nothing relayed after return. '
         'A trace is non-trivial when it contains an ending; distinct by op list. Excluded environments (corpus/C06/excluded_env.json: CloseSend '
         'blocking > 1 s, no server-stream cancel on return, Recv deaf to cancellation, shutdown without closing the client connection, open '
         'failure) are replayed for model correspondence only. A PEER THAT STOPS READING (events `stall s|i` / `unstall s|i`: the relay loop towards '
         'it blocks in Send, as under gRPC flow control; a cancelled context makes the Send return) is part of the op language and the model: family '
         'of 160 traces (stall, fill, every ending kind, tick, traffic, unstall); stuck-while-stalled states are attributed to the recorded finding '
         'C06-blocked-send-hides-ending, after `unstall` everything must end together. Real gRPC scenario e2e-stalled-initiator (64 KiB windows, the '
         'initiator does not read, the source sends until its Send blocks and ends): demonstration of the finding on the real transport + end-together '
         'after the initiator reads again.',
 'assumptions': ["GrpcStreamEnv: cancelling the outgoing context makes the client stream's Recv return an error; gRPC cancels the server stream's "
                 'context when the handler returns (emulated by the harness); CloseSend returns before its 1 s guard (grpc-go never blocks there). '
                 'NOT assumed: that the source answers the half-close.',
                 'Send on either stream returns (success or error) without blocking indefinitely; flow-control stalls of a peer that neither reads '
                 'nor ends are not modelled',
                 "proxy shutdown reaches a pass-through stream only through ClusterConnection's wiring (lifetime end closes the client connection => "
                 'the source stream fails); the handler itself never reads `lifetime` (witness C06_shutdown_needs_conn_close)',
                 'timing: the 1 s guard timer does not beat a goroutine that is runnable (virtual time in the harness advances only at quiescence)',
                 'payloads are carried by identity in the model (the code forwards the received pointer); byte-for-byte equality is checked on the '
                 'real code by the monitor',
                 'LCM mode: the stream-open metadata rewrite is C07 (compared here at `begin`); the relay machine is the same'],
 'timeout': {'quick': 900, 'thorough': 7200}},
    "C10": {'engine': 'TestC10',
 'lean_modules': ['S2S.Props.C10'],
 'required_theorems': ['C10_conservation',
                       'C10_within_limit',
                       'C10_failure_returns_slot',
                       'C10_death_returns_slot',
                       'C10_progress_bounded',
                       'C10_progress_full',
                       'C10_progress_exists',
                       'C10_refuted_late_add',
                       'C10_refuted',
                       'C10_shutdown_partial',
                       'C10_shutdown_fixed',
                       'C10_shutdown_terminates'],
 'rule': 'scripts of pool ops (conn ok|err|sessfail, peer ping-ok|silent|mute|slow|eof|garbage, die k remote|local|stall, wait, cancel, heal, end) '
         'against the real mux.NewMuxProvider + mux.NewCustomMultiMuxManager with a scripted fake connProvider over net.Pipe (harness = real yamux '
         "peer / silent / mute / slow / closing / garbage) inside one testing/synctest bubble (synctest.Wait = quiescence, yamux's 10 s/30 s timers "
         'on the virtual clock), both roles; every script ends with heal (pool must refill to N), cancel, end (everything must be closed). '
         'Bounded-exhaustive part: every applicable op from every distinct abstract pool state (observation modulo session ids) reachable within 12 '
         'ops, N in {1,2}, both roles (quick: a seeded slice of the frontier within a budget; the evidence says whether it completed); random part: '
         'scripts to 60 ops / N<=6 (quick), 200 ops / N<=8 (thorough). Plus the real mux.NewMuxReceiverProvider on loopback TCP with real dials '
         '(fixed + random scripts, real time, reduced observation). Per op the observation (registered keys, CanAcceptConnections, provider phase, '
         "open/total connections, open sessions, IsClosed) is compared with the Lean model's big-step run. Non-trivial = at least one fault op "
         '(failed attempt, session death, cancel before the epilogue); distinct by op list.',
 'assumptions': ['semaphore.Weighted (x/sync v0.20.0): Acquire fails once the context is done; yamux v0.1.2: Session.Close closes the conn, a '
                 'session whose peer vanishes/sends garbage/stops answering keep-alives shuts itself down, Ping fails on a shut-down session; child '
                 'contexts end with their parent (modelled, validated by the engine on the real libraries)',
                 'NewConnection, sessionFn and Ping always return (they do: dial/accept time out or fail on listener close, yamux.Client/Server do '
                 "no I/O, Ping has a 10 s timeout) - this is what makes connOk/connErr, sessOk/sessErr, pingOk/pingErr 'obligatory' in the "
                 'definition of a maximal execution',
                 'progress is stated for benign continuations (attempts succeed, pending clean-ups run, no further deaths or cancel); real-time '
                 "back-off of the establisher's dial loop is not modelled"],
 'timeout': {'quick': 900, 'thorough': 3600}},
    "C11": {'engine': 'TestC11',
 'lean_modules': ['S2S.Props.C11'],
 'required_theorems': ['C11_sync',
                       'C11_keys_distinct',
                       'C11_dialer_exact',
                       'C11_dialer_unknown_key',
                       'C11_can_make_calls',
                       'C11_served_only_by_registered_partial',
                       'C11_failover_partial',
                       'C11_unavailable_partial',
                       'C11_resume_partial'],
 'rule': 'histories of session-table updates against the real grpcutil.MultiClientConn (production dial options: round_robin, s2s-proxy codec) '
         'registered as connection listener of the real multiMuxManager + muxProvider, fed by the C10 fakes (real yamux sessions over net.Pipe, the '
         'harness serves an echo gRPC service on its end of every session that reports which session served), all inside one testing/synctest '
         'bubble. Ops: add, remove k remote|local, rpc (unary, 2 s deadline), inflight (a call is held in its handler while the serving session is '
         'killed), cancel. Exhaustive: every add/remove history of up to 8 (thorough: 10) effective updates for pool sizes 1-3 (thorough: 1-4) with '
         'an rpc before and after every update; random: histories to 60 (150) ops, pools to 6 (8). Compared per op: registered keys, the client '
         "connection's map keys (parsed from Describe()), the sessions on which the client connection holds a transport (yamux streams accepted by "
         "the harness's peers), CanMakeCalls, rpc outcome class. Monitor: a call is served only by a currently registered session; with >= 1 "
         'registered it is served; with none (after an update) it fails Unavailable without waiting; after a new session appears it is served again; '
         'an in-flight call on a dying session ends with an error promptly. Non-trivial = at least 2 effective updates; distinct by op list.',
 'assumptions': ["gRPC's round_robin balancer / resolver plumbing (v1.80.0) is modelled, not verified: 'a ready endpoint of the current resolver "
                 "state is picked iff one exists' is the explicit hypothesis structure Balancer of the *_partial theorems; the engine validates it "
                 'on the real gRPC on every run',
                 "observations are taken at quiescence (synctest.Wait): the property's 'once a session-list update has been applied'",
                 "before the first update the resolver has produced no state and calls wait for their deadline ('blocked'); the property makes no "
                 'claim about that window'],
 'timeout': {'quick': 600, 'thorough': 3600}},
}


PROPS["C09"] = {'assumptions': ['one global clock read by every time.Now() (the code compares wall clocks of different machines directly); strictness only where a '
                 'theorem says DisjointWindows',
                 'UnregisterShard is atomic w.r.t. RegisterShard of the same shard on the same node (its delete / unlock / delete-again window is '
                 'C08)',
                 "a node's snapshot fits LocalState's 4096-byte limit (about 45 shards per instance; beyond it LocalState degrades to the bare node "
                 "name and peers ignore it: exercised and reported, outside the property's 1-2 shards)",
                 'memberlist itself (SWIM probing, reliable send, push/pull scheduling) is modelled as the harness-owned network; its delivery '
                 'guarantee is the EmittedDelivered / AllDelivered hypothesis',
                 'the remote hand-off is observed at the registered intra-proxy stream (server stream for messages, client stream for '
                 'acknowledgements); what the peer does with it is C01-C04 on that peer'],
 'engine': 'TestC09',
 'lean_modules': ['S2S.Props.C09'],
 'required_theorems': ['C09_holder_not_older_than_any_claim_that_reached_it',
                       'C09_only_newest_claimant_remains',
                       'C09_delivered_were_emitted',
                       'C09_overlapping_claims_evict_both',
                       'C09_refuted',
                       'C09_exactly_one_owner_partial',
                       'C09_exactly_one_owner_fixed',
                       'C09_equal_stamps_keep_both',
                       'C09_leave_removes_until_merge',
                       'C09_stale_merge_resurrects_departed',
                       'C09_departed_refuted',
                       'C09_departed_own_nothing_partial',
                       'C09_msg_true_iff_exactly_one',
                       'C09_msg_local_first',
                       'C09_msg_else_remote_owner',
                       'C09_msg_neither_is_reported',
                       'C09_ack_true_iff_exactly_one',
                       'C09_ack_neither_is_reported',
                       'C09_owner_is_another_node',
                       'C09_desired_receivers',
                       'C09_desired_senders_inverse',
                       'C09_reconcile_prunes_everything_else'],
 'rule': '2-3 REAL shardManagerImpls in one process inside a testing/synctest bubble, the memberlist transport replaced by the verif broadcast tap '
         '(the harness owns the in-flight list: deliver / duplicate / delay any announcement or snapshot), virtual clock advanced only by `tick` so '
         "every time.Now() of the real code is the model's clock, RegisterShard split at the schedule point RegisterShard.afterAdd. One op = one "
         'action of the Lean machine; after every op the local shard tables (with Created), remoteNodeStates, parked registrations, live local '
         'streams, the in-flight list and the clock are compared with the model. (1) stateless DFS over ALL interleavings of add / announce / '
         'deliver for every claim pattern of <= 3 claims on 2-3 nodes x 1-2 shards (canonical up to renaming; complete where the count is below the '
         'cap, a seeded sample beyond it), each interleaving once without and once with duplication of every announcement, plus equal-stamp variants '
         '(no tick); (2) seeded random schedules mixing stream ends, snapshots in flight, departures / NotifyLeave at any point, routing calls; (3) '
         'the routing cross product: local channel absent / consuming / full+shutdown / closed / closed+shutdown x memberlist x routing mode x owner '
         'unknown / self entry / other with / without address x intra-proxy sender registered / failing / absent (2 s virtual wait) for messages, '
         'and the same with allowForward and a REAL gRPC intra-proxy receiver for acknowledgements; (4) ReconcilePeerStreams on real managers with '
         'real gRPC peers against the pure desired-set functions. Monitor (independent of the model): at the end of every complete schedule no '
         'holder is older than a claim that reached it, exactly the newest claimant holds where the full-strength clause applies, departed nodes are '
         'absent from every table; every delivery call returned true iff exactly one recipient got the item. Non-trivial = at least two claims or a '
         'leave or a routing call; distinct by op list.',
 'timeout': {'quick': 1200, 'thorough': 7200}}


PROPS["C08"] = {'assumptions': ['registrations of one shard get distinct time stamps (virtual time advances 1 ms before every addLocalShard; the `open!` corpus '
                 'case shows what equal stamps do)',
                 'single proxy instance (memberlist off): remote-owner announcements (the second trigger of the watermark replay) are in the model '
                 '(`replay`) but not driven on the real code',
                 'GrpcStreamEnv: cancelling a stream context makes Recv fail, the source answers CloseSend with EOF',
                 'a worker descheduled inside a log call made while no lock is held is a legal schedule (the 13 log points); receivers whose '
                 'snapshot order (Go map) matters are indistinguishable in the view'],
 'engine': 'TestC08',
 'lean_modules': ['S2S.Props.C08'],
 'required_theorems': ['C08_identity_checked_registries',
                       'C08_no_crash',
                       'C08_partial_cleanup_owns',
                       'C08_partial_all_done_empty',
                       'C08_partial_exact_at_quiescence',
                       'C08_partial',
                       'C08_refuted',
                       'C08_refuted_cleanup_check_then_remove',
                       'C08_refuted_stale_active_receiver',
                       'C08_refuted_late_start_of_older_incarnation',
                       'C08_refuted_overlapping_receiver_startups',
                       'C08_refuted_before_fix',
                       'C08_refuted_before_fix_unregister_double_delete',
                       'C08_refuted_before_fix_replay_send_on_closed_channel'],
 'rule': 'traces of registry ops (open/open fail/break/pause/resume/wm/settle/end) against the real shardManagerImpl + two real '
         'adminServiceProxyServers in routing mode inside a synctest bubble, every trace in a child process (a panic or a stuck goroutine kills only '
         'the child and is the observation `crashed`/`leak n`). Deterministic scheduler: every proxy goroutine is held at its next schedule point '
         "(the 5 verifPoint hooks - among them replay.afterLookup, between the watermark replay's channel look-up and its send - + 13 log statements "
         'preceding the registry operations, goroutines attributed to incarnations by creation ancestry) and released one at a time; un-paused '
         'workers run on newest-incarnation-first, exactly as the Lean driver does. Quick: exhaustive family = one source stream with a watermark + '
         'two incarnations of one shard, each paused at one of 18 points or none, for every order of open/break/resume (107 orders), plus the '
         "replay-gap family (1788 traces: incarnation A held inside RegisterShard, incarnation B replaces the channel, A's replay looks it up and is "
         'held at replay.afterLookup, B runs its close/remove steps up to any of its points, A sends; every order), plus 1500 random traces; '
         'thorough: the family also without the watermark holder, and 120000 random traces with 3-4 incarnations over two shards, up to two pauses '
         "per incarnation, open failures, settles. Every op's canonical view (which incarnation each of the five registries holds per shard, held "
         'workers, returned handlers, crash, leaked goroutines) is compared with the Lean model; the monitor (newest live incarnation registered at '
         'quiescence, clean-up steps remove only own entries, nothing left at the end, handlers returned, no goroutine left, no crash) runs on the '
         "real code's view; the monitor rules of the two repaired findings (second delete of UnregisterShard, replay send on a closed channel) stay "
         'armed: their return is an unlisted VIOLATION. VERIF_C08_MODEL=asis compares a checkout from before these two fixes with the old model '
         '(engine registry-asis). A checkout without the replay.afterLookup hook is detected by a probe trace and compared with look-up and send run '
         'together (`begin nogap`). A trace is non-trivial when it has more than 3 ops; distinct by op list.',
 'timeout': {'quick': 900, 'thorough': 7200}}
