"""Per-property configuration for /verif/check."""

PROPS = {
    "C05": dict(
        engine="TestC05",
        lean_modules=["S2S.Props.C05"],
        required_theorems=["C05_wf", "C05_aggregate_exact", "C05_aggregate_nodup", "C05_aggregate_count", "C05_contents_exact"],
        rule="histories of ring ops (new/app/agg/dis): bounded-exhaustive over capacities 1..3 with contiguous and gapped ids, then random "
             "histories (capacities 1..1024, wrap-around, several doublings, watermarks below/inside/above the range, extreme watermarks, "
             "a hypothesis-violating stream with non-increasing ids and (0,0) shards). A history is non-trivial when it has a gapped append or an "
             "aggregate returning at least one shard; distinct by the hash of its op list.",
        assumptions=["proxy ids and original ids stay inside the int64 range (|id| < 2^62) so startProxyID+size does not wrap; "
                     "AggregateUpTo's own subtraction is modelled with exact two's-complement wrap"],
    ),
    "C07": dict(
        engine="TestC07",
        lean_modules=["S2S.Props.C07"],
        required_theorems=["C07_lcm_correct", "C07_lcm_symmetric", "C07_map_single_owner", "C07_hash_consistent", "C07_forward_metadata", "C07_describe_both_directions"],
        rule="GCD/LCM for all pairs in [-2,bound]^2 plus composites/powers of two to 16384 and int32-overflow boundary pairs; mapShardIDUnique for "
             "every LCM shard id (small pairs) or boundary+random ids (large pairs) and arbitrary (src,tgt,id) triples incl. panicking ones; "
             "real-hash consistency samples; DescribeCluster and stream-open metadata through a real TCP ClusterConnection in LCM mode in both "
             "directions with/without the bypass header. Non-trivial = supported pair (a,b>=1) or an end-to-end stream case; distinct by input.",
        assumptions=["Temporal's MapShardID and WorkflowIDToHistoryShard are modelled from go.temporal.io/server v1.31.2 source and compared at run time",
                     "farm.Fingerprint32 is an arbitrary 32-bit hash in the theorem (the real hash is sampled by the harness)"],
        timeout={"quick": 900, "thorough": 3600},
    ),
    "C20": dict(
        engine="TestC20",
        lean_modules=["S2S.Props.C20"],
        required_theorems=["C20_open_never_wedges", "C20_report_total", "C20_others_unchanged", "C20_refuted_before_fix"],
        rule="stream opens through the real adminServiceProxyServer + real ReplicationStreamObserver: boundary ids x four metadata keys x three "
             "stream modes, each followed by a well-formed open that must be served; random int32/int64/garbage strings. Non-trivial = id outside "
             "[1,1024] or malformed; distinct by (mode,metadata).",
        assumptions=["the handler body (forwarder / routing workers) is modelled as 'served' once entered; its own behaviour is C06/C01-C04",
                     "log.CapturePanic converts a panic in the handler goroutine into a returned error (temporal server v1.31.2)"],
    ),
}
