#!/usr/bin/env python3
"""Regenerates /verif/MANIFEST.json from checks/registry.py and checks/manifest_meta.py."""
import json, os, sys
ROOT = os.path.dirname(os.path.dirname(os.path.abspath(__file__)))
sys.path.insert(0, ROOT)
from checks.registry import PROPS
from checks.manifest_meta import META, NOT_APPLICABLE, HOOK_COMMITS, NOTES

ids = [json.loads(l)["id"] for l in open(os.path.join(ROOT, "properties.jsonl"))]
checks = []
for pid in ids:
    if pid not in PROPS or pid not in META:
        continue
    m = META[pid]
    checks.append({
        "property_id": pid,
        "quick_cmd": f"./check {pid} --tier quick",
        "thorough_cmd": f"./check {pid} --tier thorough",
        "evidence_file": f"/verif/evidence/{pid}.json",
        "replay_cmd_template": "./check replay {path}",
        "engine": PROPS[pid].get("engine", ""),
        "level_claimed": {"category": "proof", "text": m["text"], "design_ref": m["design_ref"]},
        "level_note": m["note"],
        "technique": m["technique"],
    })
na = [{"property_id": p, "reason": NOT_APPLICABLE.get(p, "check not built yet in this session (see DESIGN.md section 5 for the planned model/theorems); not claimed")}
      for p in ids if p not in {c["property_id"] for c in checks}]
man = {
    "version": 1,
    "setup_cmd": "./check setup",
    "hooks": {
        "guard": "verif",
        "enable": "go test -c -tags verif (harness module /verif/go, replace github.com/temporalio/s2s-proxy => /repo)",
        "baseline_off_cmd": "cd /repo && GOFLAGS=-mod=mod go test -json -vet=off -count=1 -timeout 25m ./...",
        "source_commits": HOOK_COMMITS,
        "add_only": True,
    },
    "engines": [
        {"name": "harness.test", "path": "/verif/go/eng", "serves_properties": [c["property_id"] for c in checks],
         "kind_free_text": "Go test binary linking /repo with -tags verif: per-property engines drive the real code, emit op lines + canonical observations, run property monitors"},
        {"name": "s2sdrv", "path": "/verif/lean/Driver", "serves_properties": [c["property_id"] for c in checks],
         "kind_free_text": "compiled Lean model driver (core-only lean_exe): replays the same op lines on the executable Lean models"},
        {"name": "lean proofs", "path": "/verif/lean/S2S/Props", "serves_properties": [c["property_id"] for c in checks],
         "kind_free_text": "Lean 4 theorems over the models; rebuilt and axiom-audited on every check"},
    ],
    "checks": checks,
    "notes": NOTES,
    "not_applicable": na,
}
json.dump(man, open(os.path.join(ROOT, "MANIFEST.json"), "w"), indent=1)
print("wrote MANIFEST.json with", len(checks), "checks;", len(na), "not claimed")
